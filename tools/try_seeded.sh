#!/bin/sh
# usage: tools/try_seeded.sh <patch.diff> <PROP> [<PROP>...]
# Applies a seeded change to /repo, runs the quick checks of the given properties, reverts.
# Prints one line per property: "<PROP> exit=<code> <VIOLATION line if any>".
patch="$1"; shift
if [ -n "$(git -C /repo status --porcelain)" ]; then echo "/repo is not clean"; exit 2; fi
if ! git -C /repo apply "$patch"; then echo "patch does not apply"; exit 2; fi
# the change never outlives this script, whatever ends it (also a closed output pipe)
trap 'git -C /repo checkout -- .' EXIT
trap 'exit 2' HUP INT TERM PIPE
for p in "$@"; do
    out=$(VSIM_EVIDENCE_DIR=/verif/target/seeded-evidence /verif/vcheck "$p" "${TIER:-quick}" 2>&1); code=$?
    line=$(printf '%s\n' "$out" | grep -E "^(VIOLATION|HARNESS-ERROR)" | head -1)
    v=$(printf '%s\n' "$out" | grep -E "^violation at" | head -1 | cut -c1-300)
    echo "$p exit=$code $line"
    [ -n "$v" ] && echo "    $v"
done
