#!/bin/sh
# Runs the determinism self-test (every seed three times, at 1, 16 and 5 worker processes)
# for every claimed property. usage: tools/determinism_all.sh [N]
cd /verif && ./vcheck build || exit 2
rc=0
for p in $(./target/release/vsim list | grep '^C'); do
    ./target/release/vsim determinism "$p" quick --n "${1:-300}" || rc=2
done
/verif/tools/c15_miri.py determinism 24 || rc=2
exit $rc
