#!/usr/bin/env python3
"""C15, clause "concurrent writers never lose each other's bits", under Miri's seeded scheduler.

usage: tools/c15_miri.py quick|thorough            run the batch (called by vcheck after vsim's C15)
       tools/c15_miri.py replay <replay.json>      re-execute one recorded execution

Every execution is (first case, case count, Miri seed): the harness /verif/miri-c15 runs the
real AtomicBitmapMmap::mark_dirty of /repo on 2..=8 threads; Miri decides every preemption from
its seed, so the same triple replays the same execution. Exit 0 held, 1 violation, 2 harness
error. Merges what it covered into /verif/evidence/C15.json (written by vsim just before)."""
import json, os, re, subprocess, sys, time

VERIF = "/verif"
CRATE = VERIF + "/miri-c15"
RATE = "0.25"
ENV = dict(os.environ, CARGO_NET_OFFLINE="true")


def miri(flags, args):
    env = dict(ENV, MIRIFLAGS=f"{flags} -Zmiri-preemption-rate={RATE} -Zmiri-disable-isolation")
    p = subprocess.run(["cargo", "+nightly", "miri", "run", "--quiet", "--", *map(str, args)], cwd=CRATE, env=env,
                       capture_output=True, text=True)
    return p.returncode, p.stdout + p.stderr


def first_violation(out):
    for l in out.splitlines():
        if l.startswith("C15-ATOMIC-VIOLATION") or "Undefined Behavior" in l or "panicked at" in l:
            return l.strip()
    return None


def single(first, count, seed):
    rc, out = miri(f"-Zmiri-seed={seed}", [first, count])
    return rc, first_violation(out), out


def replay(path):
    r = json.load(open(path))
    rc, v, out = single(r["first_case"], r["case_count"], r["miri_seed"])
    if v is None:
        print(f"replay {path}: no violation (exit {rc})")
        if rc != 0:
            print(out[-2000:])
            return 2
        return 0
    same = v == r["violation"]
    print(f"replay {path}: {v}")
    print("replay reproduces the recorded violation exactly" if same else "replay differs from the recorded violation: " + r["violation"])
    print(f"VIOLATION property=C15 replay={path}")
    return 1


def traces(out):
    return [l.strip() for l in out.splitlines() if l.startswith("C15-ATOMIC-TRACE")]


def determinism(n):
    """the same (cases, Miri seed) executed twice must give the same trace"""
    div = 0
    distinct = set()
    for i in range(n):
        a = traces(single(i * 4, 4, i)[2])
        b = traces(single(i * 4, 4, i)[2])
        distinct.add(tuple(a))
        if a != b or not a:
            div += 1
            print(f"DIVERGENCE cases {i * 4}..{i * 4 + 4} miri seed {i}:\n  {a}\n  {b}")
    print(f"determinism C15/miri: {n} (case range, seed) pairs x 2 executions, {div} divergences, {len(distinct)} distinct traces")
    return 2 if div else 0


def main():
    if len(sys.argv) >= 3 and sys.argv[1] == "replay":
        sys.exit(replay(sys.argv[2]))
    if len(sys.argv) >= 2 and sys.argv[1] == "determinism":
        sys.exit(determinism(int(sys.argv[2]) if len(sys.argv) > 2 else 24))
    tier = sys.argv[1] if len(sys.argv) > 1 else "quick"
    base = int(os.environ.get("VERIF_SEED", "1"))
    # (batches, cases per interpreter run, Miri seeds per batch)
    batches, per, seeds = (6, 8, 16) if tier == "quick" else (60, 16, 64)
    t0 = time.time()
    # no Miri on this machine: the clause stays unexplored by this engine, which is said in the
    # evidence rather than turned into a verdict either way
    p = subprocess.run(["cargo", "+nightly", "miri", "--version"], capture_output=True, text=True, env=ENV)
    if p.returncode != 0:
        print("NOTE property=C15 engine=miri: cargo +nightly miri is not available here; lost-update clause not explored by Miri in this run")
        merge(tier, 0, 0, 0, 0.0, 0, "", 0, skipped="cargo +nightly miri not available: " + (p.stderr.strip().splitlines() or ["?"])[-1])
        sys.exit(0)
    # build once; a compile error is a harness error, not a verdict
    rc, out = miri("-Zmiri-seed=0", [0, 0])
    if rc != 0:
        print(out[-4000:])
        print("HARNESS-ERROR miri build/run of /verif/miri-c15 failed")
        sys.exit(2)
    runs = 0
    cases = 0
    orders = set()
    for b in range(batches):
        first = (base - 1) * 1_000_000 + b * per
        lo = (base - 1) * 1000 + b * seeds
        rc, out = miri(f"-Zmiri-many-seeds={lo}..{lo + seeds}", [first, per])
        runs += seeds
        cases += per
        orders.update(traces(out))
        if rc == 0:
            continue
        m = re.search(r"FAILING SEED: (\d+)", out)
        v = first_violation(out)
        if m is None or v is None:
            print(out[-4000:])
            print("HARNESS-ERROR miri run failed without a verdict")
            sys.exit(2)
        seed = int(m.group(1))
        # minimise: the smallest case range that still fails with this seed (the scheduler's
        # random stream is per interpreter run, so only a prefix cut keeps the execution)
        rc1, v1, _ = single(first, per, seed)
        best = (first, per, v1 or v)
        mcase = re.search(r"case=(\d+)", best[2])
        if mcase:
            c = int(mcase.group(1))
            rc2, v2, _ = single(first, c - first + 1, seed)
            if v2:
                best = (first, c - first + 1, v2)
            rc3, v3, _ = single(c, 1, seed)
            if v3:
                best = (c, 1, v3)
        rc4, v4, _ = single(best[0], best[1], seed)
        exact = v4 == best[2]
        path = f"{VERIF}/replays/C15-miri-{best[0]}-{seed}.json"
        os.makedirs(VERIF + "/replays", exist_ok=True)
        json.dump({
            "property": "C15", "engine": "miri", "clause": "concurrent_writers_lost_bit",
            "first_case": best[0], "case_count": best[1], "miri_seed": seed, "preemption_rate": RATE,
            "violation": best[2], "replay_exact": exact,
            "replay_cmd": f"/verif/vcheck replay {path}",
        }, open(path, "w"), indent=1)
        print(f"violation at miri seed {seed}: {best[2]}")
        print(f"VIOLATION property=C15 replay={path}")
        merge(tier, runs, cases, seeds, time.time() - t0, 1, path, len(orders))
        sys.exit(1)
    merge(tier, runs, cases, seeds, time.time() - t0, 0, "", len(orders))
    print(f"property=C15 engine=miri runs={runs} cases={cases} wall={time.time() - t0:.1f}s exit=0")
    sys.exit(0)


def merge(tier, runs, cases, seeds, wall, viol, path, orders, skipped=None):
    evp = os.environ.get("VSIM_EVIDENCE_DIR", VERIF + "/evidence") + "/C15.json"
    try:
        ev = json.load(open(evp))
    except Exception:
        return
    ev["coverage"]["miri_atomicity"] = {
        "what": "AtomicBitmapMmap::mark_dirty (real code of /repo, through BitmapMmapRegion) on 2..=8 threads writing pages that share log bytes; Miri preempts at basic-block granularity from its seed; oracle: every expected page bit set, no other bit set",
        "tier": tier, "executions": runs, "distinct_cases": cases, "distinct_case_and_finish_order_pairs": orders, "miri_seeds_per_case_batch": seeds,
        "preemption_rate": float(RATE), "wall_s": round(wall, 1), "violations": viol,
        "real_components": ["vhost-user-backend bitmap.rs (AtomicBitmapMmap, BitmapMmapRegion, MmapLogReg indexing)", "std atomics, RwLock, threads as interpreted by Miri"],
        "stub_components": ["guest region (geometry only)", "log area (anonymous mapping instead of the frontend's file)"],
    }
    if skipped:
        ev["coverage"]["miri_atomicity"]["skipped"] = skipped
    ev["wall_s"] = round(ev.get("wall_s", 0) + wall, 2)
    if viol:
        ev["violations"] = ev.get("violations", 0) + 1
        ev["replay"] = path
    json.dump(ev, open(evp, "w"), indent=1)


main()
