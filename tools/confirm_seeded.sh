#!/bin/sh
# usage: tools/confirm_seeded.sh <seeded-dir> <scratch-worktree>
# Confirms independently, in a scratch worktree of /repo (never in /repo itself), that a seeded
# change (1) applies and compiles, (2) leaves the repository's test-suite green, (3) makes its
# demonstration fail, while (4) the demonstration passes without the change.
d="$1"; wt="$2"
rel=$(grep -oE '[A-Za-z0-9_./-]+/tests/[A-Za-z0-9_./-]+\.rs' "$d/demo_path.txt" | head -1)
[ -z "$rel" ] && { echo "no demo path found"; exit 2; }
name=$(basename "$rel" .rs)
cd "$wt" || exit 2
git checkout -q -- . && git clean -qfd -e target
mkdir -p "$(dirname "$rel")"; cp "$d/demo.rs" "$rel"
cargo test --workspace --offline --test "$name" >/tmp/confirm.$$.1 2>&1; without=$?
rm -f "$rel"
git apply "$d/patch.diff" || { echo "patch does not apply"; exit 2; }
cargo test --workspace --no-fail-fast --offline >/tmp/confirm.$$.2 2>&1; suite=$?
passed=$(grep -E "^test result: ok" /tmp/confirm.$$.2 | sed -E 's/.* ([0-9]+) passed.*/\1/' | paste -sd+ | bc)
cp "$d/demo.rs" "$rel"
cargo test --workspace --offline --test "$name" >/tmp/confirm.$$.3 2>&1; with=$?
git checkout -q -- . && git clean -qfd -e target
echo "demo_without_change_exit=$without suite_with_change_exit=$suite suite_passed=$passed demo_with_change_exit=$with"
rm -f /tmp/confirm.$$.*
[ "$without" = 0 ] && [ "$suite" = 0 ] && [ "$with" != 0 ]
