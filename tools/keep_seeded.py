#!/usr/bin/env python3
"""usage: tools/keep_seeded.py <src-dir> <worktree> <name> <property> <needs-text> [extra checks...]
Confirms a seeded change in a scratch worktree, runs the property's quick check (plus extra
checks) against it in /repo (apply, run, revert) and stores it under /verif/seeded/<name>/."""
import json, os, shutil, subprocess, sys
src, wt, name, prop, needs = sys.argv[1:6]
extra = sys.argv[6:]
if os.environ.get("CONFIRM_LINE"):
    # confirmation already done (tools/confirm_seeded.sh in a scratch worktree); its last line
    confirm = os.environ["CONFIRM_LINE"]
else:
    r = subprocess.run(["/verif/tools/confirm_seeded.sh", src, wt], capture_output=True, text=True)
    confirm = r.stdout.strip().splitlines()[-1] if r.stdout.strip() else r.stderr.strip()
    if r.returncode != 0:
        print("NOT CONFIRMED:", confirm); sys.exit(1)
checks = [prop] + extra
r2 = subprocess.run(["/verif/tools/try_seeded.sh", os.path.join(src, "patch.diff")] + checks, capture_output=True, text=True)
lines = r2.stdout.strip().splitlines()
det = {}
cur = None
for l in lines:
    if l.startswith("    "):
        det[cur]["first_violation"] = l.strip()
    else:
        parts = l.split()
        cur = parts[0]
        det[cur] = {"exit": int(parts[1].split("=")[1]), "line": " ".join(parts[2:])}
dst = os.path.join("/verif/seeded", name)
os.makedirs(dst, exist_ok=True)
for f in ["patch.diff", "demo.rs", "demo_path.txt", "notes.md"]:
    if os.path.exists(os.path.join(src, f)):
        shutil.copy(os.path.join(src, f), dst)
meta = {
    "property": prop,
    "breaks": open(os.path.join(src, "notes.md")).read().split("\n\n")[0][:600] if os.path.exists(os.path.join(src, "notes.md")) else "",
    "needs_to_manifest": needs,
    "origin": "written by a fresh sub-agent that saw only the property text and a scratch worktree of /repo (nothing from /verif)",
    "confirmed_in_scratch_worktree": confirm,
    "confirmation_cmd": "tools/confirm_seeded.sh (demo passes without the change; 105 repository tests pass with it; demo fails with it)",
    "checks_run": {k: v for k, v in det.items()},
    "detected": any(v["exit"] == 1 for v in det.values()),
    "detected_by_own_property_check": det.get(prop, {}).get("exit") == 1,
}
json.dump(meta, open(os.path.join(dst, "meta.json"), "w"), indent=1)
print(name, "detected" if meta["detected"] else "MISSED", {k: v["exit"] for k, v in det.items()})
