#!/bin/sh
# usage: tools/run_all.sh quick|thorough   -- runs every claimed check, prints one summary line each
cd /verif || exit 2
rc=0
for p in $(python3 -c "import json; print(' '.join(c['property_id'] for c in json.load(open('MANIFEST.json'))['checks']))"); do
    out=$(./vcheck "$p" "${1:-quick}" 2>&1); code=$?
    printf '%s\n' "$out" | grep -E "^(VIOLATION|HARNESS-ERROR|KNOWN-FINDING|violation at)" | cut -c1-260
    printf '%s\n' "$out" | tail -1 | cut -c1-200
    [ $code -ne 0 ] && rc=$code
done
exit $rc
