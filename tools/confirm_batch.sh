#!/bin/sh
# usage: tools/confirm_batch.sh <worktree> <out-file> <seeded-dir>...
# Confirms several seeded changes one after the other in one scratch worktree.
wt="$1"; out="$2"; shift 2
: > "$out"
for d in "$@"; do
  line=$(/verif/tools/confirm_seeded.sh "$d" "$wt" | tail -1); rc=$?
  echo "$d|$rc|$line" >> "$out"
done
