#!/bin/sh
# Sensitivity self-test: applies every seeded change under /verif/seeded to /repo (one at a
# time, reverting afterwards), runs the quick check of the property it breaks and reports
# whether it was detected (exit 1 with a VIOLATION line). Exit 0 iff every change is detected.
cd /verif || exit 2
./vcheck build || exit 2
missed=0
for d in /verif/seeded/*/; do
    name=$(basename "$d")
    prop=$(python3 -c "import json,sys; print(json.load(open('${d}meta.json'))['property'])")
    all=$(./tools/try_seeded.sh "${d}patch.diff" "$prop"); res=$(printf '%s\n' "$all" | head -1)
    case "$res" in
        *"exit=1 VIOLATION"*) echo "DETECTED $name  ($res)";;
        *) echo "MISSED   $name  ($res)"; missed=$((missed+1));;
    esac
done
echo "missed=$missed"
[ "$missed" = 0 ]
