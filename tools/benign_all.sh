#!/bin/sh
# Specificity self-test: applies every behaviour-preserving change under /verif/benign to /repo
# (one at a time, reverting afterwards) and runs EVERY quick check against it. Each must exit 0.
# Exit 0 iff no check raised an alarm (or a harness error) on any of them. Takes ~3 min per change.
cd /verif || exit 2
./vcheck build || exit 2
props=$(python3 -c "import json; print(' '.join(c['property_id'] for c in json.load(open('MANIFEST.json'))['checks']))")
alarms=0
for d in /verif/benign/*/; do
    name=$(basename "$d")
    all=$(./tools/try_seeded.sh "${d}patch.diff" $props)
    bad=$(printf '%s\n' "$all" | grep -E "^C[0-9]+ exit=[^0]|does not apply|not clean")
    if [ -n "$bad" ]; then echo "ALARM    $name"; printf '%s\n' "$bad" | cut -c1-300; alarms=$((alarms+1)); else echo "SILENT   $name"; fi
done
echo "alarms=$alarms"
[ "$alarms" = 0 ]
