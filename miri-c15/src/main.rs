//! C15, clause "concurrent writers never lose each other's bits", under Miri's seeded scheduler.
//!
//! vsim (the token-passing simulator) only switches tasks at instrumented sync points, so a
//! dirty-bit update that is not a single atomic read-modify-write is invisible to it unless the
//! two halves happen to be separated by a hook. Miri is the second deterministic scheduler of
//! this machinery: it runs the real `AtomicBitmapMmap::mark_dirty` (through the public
//! `BitmapMmapRegion`) on several threads, preempts at basic-block granularity as decided by its
//! seed (`-Zmiri-seed`, `-Zmiri-preemption-rate`), and the same seed replays the same execution.
//!
//! argv: <first case> [<count>]  -- each case number selects writers (2..=8), where the region
//! starts inside the log, which pages and the shape of each writer's call (one byte, the last
//! byte of a page, a range crossing into the next page, a short random range). The cases of one
//! invocation run one after the other in the same interpreter, so (first case, count, Miri
//! seed) identifies an execution. Exit 0 = every expected bit present and no other bit set in
//! every case; exit 1 = violation (printed).

use std::sync::atomic::{AtomicUsize, Ordering};
use std::sync::{Arc, Barrier};

use vhost_user_backend::bitmap::{BitmapMmapRegion, BitmapReplace, MemRegionBitmap, MmapLogReg};
use vm_memory::bitmap::{Bitmap, BS};
use vm_memory::{GuestAddress, GuestMemoryRegion, GuestMemoryRegionBytes, GuestUsize};

/// A guest region that is only geometry: AtomicBitmapMmap::new reads start_addr() and len().
#[derive(Debug)]
struct Geometry {
    start: u64,
    len: u64,
}

impl GuestMemoryRegion for Geometry {
    type B = ();
    fn len(&self) -> GuestUsize {
        self.len
    }
    fn start_addr(&self) -> GuestAddress {
        GuestAddress(self.start)
    }
    fn bitmap(&self) -> BS<'_, ()> {}
}
impl GuestMemoryRegionBytes for Geometry {}

struct Lcg(u64);
impl Lcg {
    fn next(&mut self, n: u64) -> u64 {
        self.0 = self.0.wrapping_mul(6364136223846793005).wrapping_add(1442695040888963407);
        (self.0 >> 33) % n
    }
}

fn main() {
    let first: u64 = std::env::args().nth(1).and_then(|s| s.parse().ok()).unwrap_or(0);
    let count: u64 = std::env::args().nth(2).and_then(|s| s.parse().ok()).unwrap_or(1);
    for case in first..first + count {
        one_case(case);
    }
}

fn one_case(case: u64) {
    let mut g = Lcg(case.wrapping_mul(0x9e37_79b9_7f4a_7c15) ^ 0xc15);
    let writers = 2 + g.next(7) as usize; // 2..=8
    let first_page = g.next(5) * 8 + g.next(3); // region may start inside a log byte
    let pages = 8 + g.next(9); // the writers' pages share one or two log bytes
    let log_len = ((first_page + pages) / 8 + 2) as usize;

    let logmem = Arc::new(MmapLogReg::verif_anonymous(log_len).expect("log"));
    let region = Geometry { start: first_page * 0x1000, len: pages * 0x1000 };
    let bm = BitmapMmapRegion::default();
    bm.replace(<BitmapMmapRegion as BitmapReplace>::InnerBitmap::new(&region, Arc::clone(&logmem)).expect("bitmap"));

    // each writer: a distinct page (offset within the region), possibly a two-page range
    let mut plan: Vec<(usize, usize)> = Vec::new();
    let mut expect = vec![false; pages as usize];
    for w in 0..writers {
        let page = (w as u64 * pages / writers as u64) as usize;
        let (off, len) = match g.next(4) {
            0 => (page * 0x1000, 1),
            1 => (page * 0x1000 + 0xfff, 1),
            2 => (page * 0x1000 + 0x800, 0x1000), // crosses into the next page
            _ => (page * 0x1000 + g.next(0x1000) as usize, 1 + g.next(64) as usize),
        };
        let last = ((off + len - 1) / 0x1000).min(pages as usize - 1);
        for p in off / 0x1000..=last {
            expect[p] = true;
        }
        plan.push((off, len));
    }
    let barrier = Arc::new(Barrier::new(writers));
    // the order in which the writers finish: a cheap fingerprint of the schedule Miri chose
    let rank = Arc::new(AtomicUsize::new(0));
    let hs: Vec<_> = plan
        .iter()
        .cloned()
        .map(|(off, len)| {
            let bm = bm.clone();
            let barrier = Arc::clone(&barrier);
            let rank = Arc::clone(&rank);
            std::thread::spawn(move || {
                barrier.wait();
                bm.mark_dirty(off, len);
                rank.fetch_add(1, Ordering::SeqCst)
            })
        })
        .collect();
    let order: Vec<usize> = hs.into_iter().map(|h| h.join().unwrap()).collect();
    // (written without the formatting machinery, which costs an interpreter far more than
    // the scenario itself)
    let mut line: Vec<u8> = b"C15-ATOMIC-TRACE case=".to_vec();
    let mut digits = [0u8; 20];
    let (mut n, mut i) = (case, 20);
    loop {
        i -= 1;
        digits[i] = b'0' + (n % 10) as u8;
        n /= 10;
        if n == 0 {
            break;
        }
    }
    line.extend_from_slice(&digits[i..]);
    line.extend_from_slice(b" finish_order=");
    line.extend(order.iter().map(|r| b'0' + *r as u8));
    line.push(b'\n');
    let _ = std::io::Write::write_all(&mut std::io::stdout(), &line);
    let mut bad = Vec::new();
    for p in 0..pages as usize {
        let got = bm.dirty_at(p * 0x1000);
        if got != expect[p] {
            bad.push(format!("page {} (bit {}): dirty={} expected={}", p, first_page as usize + p, got, expect[p]));
        }
    }
    if !bad.is_empty() {
        println!(
            "C15-ATOMIC-VIOLATION case={case} writers={writers} first_page={first_page} pages={pages} plan={plan:x?}: {}",
            bad.join("; ")
        );
        std::process::exit(1);
    }
}
