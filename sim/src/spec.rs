//! Independent transcription of the vhost-user and vhost-user-gpu wire formats.
//!
//! Shares no type, constant or macro with the crates under test. Every message is described by
//! literal request numbers and explicit byte offsets (native endian = little endian here).
//! Section names refer to docs/interop/vhost-user.rst ("Message Specification",
//! "Front-end message types", "Back-end message types") and vhost-user-gpu.rst.

#![allow(clippy::identity_op)]

// --- header ("Header": request u32, flags u32, size u32) --------------------------------------
pub const HDR: usize = 12;
pub const VERSION: u32 = 0x1; // flags bits 0..1
pub const F_REPLY: u32 = 0x4; // flags bit 2
pub const F_NEED_REPLY: u32 = 0x8; // flags bit 3
pub const MAX_PAYLOAD: usize = 0x1000; // limit the implementation documents for this channel

// --- virtio / protocol feature bits ("Feature bits", "Protocol features") ---------------------
pub const VHOST_USER_F_PROTOCOL_FEATURES: u64 = 1 << 30;
pub const VHOST_F_LOG_ALL: u64 = 1 << 26;
pub mod pf {
    pub const MQ: u64 = 1 << 0;
    pub const LOG_SHMFD: u64 = 1 << 1;
    pub const RARP: u64 = 1 << 2;
    pub const REPLY_ACK: u64 = 1 << 3;
    pub const MTU: u64 = 1 << 4;
    pub const BACKEND_REQ: u64 = 1 << 5;
    pub const CROSS_ENDIAN: u64 = 1 << 6;
    pub const CRYPTO_SESSION: u64 = 1 << 7;
    pub const PAGEFAULT: u64 = 1 << 8;
    pub const CONFIG: u64 = 1 << 9;
    pub const BACKEND_SEND_FD: u64 = 1 << 10;
    pub const HOST_NOTIFIER: u64 = 1 << 11;
    pub const INFLIGHT_SHMFD: u64 = 1 << 12;
    pub const RESET_DEVICE: u64 = 1 << 13;
    pub const INBAND_NOTIFICATIONS: u64 = 1 << 14;
    pub const CONFIGURE_MEM_SLOTS: u64 = 1 << 15;
    pub const STATUS: u64 = 1 << 16;
    pub const XEN_MMAP: u64 = 1 << 17;
    pub const SHARED_OBJECT: u64 = 1 << 18;
    pub const DEVICE_STATE: u64 = 1 << 19;
    pub const SHMEM: u64 = 1 << 21;
    /// bits that gate an operation handled by this code base
    pub const GATING: [u64; 10] = [
        MQ,
        LOG_SHMFD,
        CONFIG,
        BACKEND_REQ,
        INFLIGHT_SHMFD,
        RESET_DEVICE,
        CONFIGURE_MEM_SLOTS,
        SHARED_OBJECT,
        DEVICE_STATE,
        SHMEM,
    ];
}

// --- front-end request numbers ("Front-end message types") -------------------------------------
pub mod fr {
    pub const GET_FEATURES: u32 = 1;
    pub const SET_FEATURES: u32 = 2;
    pub const SET_OWNER: u32 = 3;
    pub const RESET_OWNER: u32 = 4;
    pub const SET_MEM_TABLE: u32 = 5;
    pub const SET_LOG_BASE: u32 = 6;
    pub const SET_LOG_FD: u32 = 7;
    pub const SET_VRING_NUM: u32 = 8;
    pub const SET_VRING_ADDR: u32 = 9;
    pub const SET_VRING_BASE: u32 = 10;
    pub const GET_VRING_BASE: u32 = 11;
    pub const SET_VRING_KICK: u32 = 12;
    pub const SET_VRING_CALL: u32 = 13;
    pub const SET_VRING_ERR: u32 = 14;
    pub const GET_PROTOCOL_FEATURES: u32 = 15;
    pub const SET_PROTOCOL_FEATURES: u32 = 16;
    pub const GET_QUEUE_NUM: u32 = 17;
    pub const SET_VRING_ENABLE: u32 = 18;
    pub const SET_BACKEND_REQ_FD: u32 = 21;
    pub const GET_CONFIG: u32 = 24;
    pub const SET_CONFIG: u32 = 25;
    pub const GET_INFLIGHT_FD: u32 = 31;
    pub const SET_INFLIGHT_FD: u32 = 32;
    pub const GPU_SET_SOCKET: u32 = 33;
    pub const RESET_DEVICE: u32 = 34;
    pub const GET_MAX_MEM_SLOTS: u32 = 36;
    pub const ADD_MEM_REG: u32 = 37;
    pub const REM_MEM_REG: u32 = 38;
    pub const GET_SHARED_OBJECT: u32 = 41;
    pub const SET_DEVICE_STATE_FD: u32 = 42;
    pub const CHECK_DEVICE_STATE: u32 = 43;
    pub const GET_SHMEM_CONFIG: u32 = 44;
    /// highest request number defined (for "unknown code" generation)
    pub const MAX_DEFINED: u32 = 44;
}

// --- back-end request numbers ("Back-end message types") ---------------------------------------
pub mod br {
    pub const IOTLB_MSG: u32 = 1;
    pub const CONFIG_CHANGE_MSG: u32 = 2;
    pub const VRING_HOST_NOTIFIER_MSG: u32 = 3;
    pub const VRING_CALL: u32 = 4;
    pub const VRING_ERR: u32 = 5;
    pub const SHARED_OBJECT_ADD: u32 = 6;
    pub const SHARED_OBJECT_REMOVE: u32 = 7;
    pub const SHARED_OBJECT_LOOKUP: u32 = 8;
    pub const SHMEM_MAP: u32 = 9;
    pub const SHMEM_UNMAP: u32 = 10;
    pub const MAX_DEFINED: u32 = 10;
}

// --- gpu request numbers (vhost-user-gpu.rst) ---------------------------------------------------
pub mod gr {
    pub const GET_PROTOCOL_FEATURES: u32 = 1;
    pub const SET_PROTOCOL_FEATURES: u32 = 2;
    pub const GET_DISPLAY_INFO: u32 = 3;
    pub const CURSOR_POS: u32 = 4;
    pub const CURSOR_POS_HIDE: u32 = 5;
    pub const CURSOR_UPDATE: u32 = 6;
    pub const SCANOUT: u32 = 7;
    pub const UPDATE: u32 = 8;
    pub const DMABUF_SCANOUT: u32 = 9;
    pub const DMABUF_UPDATE: u32 = 10;
    pub const GET_EDID: u32 = 11;
    pub const DMABUF_SCANOUT2: u32 = 12;
    pub const F_REPLY: u32 = 0x4;
    pub const DISPLAY_INFO_SIZE: usize = 24 + 16 * 24;
    pub const EDID_RESP_SIZE: usize = 24 + 4 + 4 + 1024;
}

// --- little helpers --------------------------------------------------------------------------
pub fn p32(v: &mut Vec<u8>, x: u32) {
    v.extend_from_slice(&x.to_le_bytes());
}
pub fn p64(v: &mut Vec<u8>, x: u64) {
    v.extend_from_slice(&x.to_le_bytes());
}
pub fn p16(v: &mut Vec<u8>, x: u16) {
    v.extend_from_slice(&x.to_le_bytes());
}
pub fn g16(b: &[u8], o: usize) -> u16 {
    u16::from_le_bytes(b[o..o + 2].try_into().unwrap())
}
pub fn g32(b: &[u8], o: usize) -> u32 {
    u32::from_le_bytes(b[o..o + 4].try_into().unwrap())
}
pub fn g64(b: &[u8], o: usize) -> u64 {
    u64::from_le_bytes(b[o..o + 8].try_into().unwrap())
}

pub fn header(code: u32, flags: u32, size: u32) -> Vec<u8> {
    let mut v = Vec::with_capacity(HDR);
    p32(&mut v, code);
    p32(&mut v, flags);
    p32(&mut v, size);
    v
}

pub fn message(code: u32, flags: u32, body: &[u8]) -> Vec<u8> {
    let mut v = header(code, flags, body.len() as u32);
    v.extend_from_slice(body);
    v
}

#[derive(Clone, Copy, Debug, PartialEq)]
pub struct Hdr {
    pub code: u32,
    pub flags: u32,
    pub size: u32,
}

pub fn parse_hdr(b: &[u8]) -> Hdr {
    Hdr {
        code: g32(b, 0),
        flags: g32(b, 4),
        size: g32(b, 8),
    }
}

/// Split a byte stream into messages by the header's size field.
pub fn split_stream(mut b: &[u8]) -> Result<Vec<(Hdr, Vec<u8>)>, String> {
    let mut v = Vec::new();
    while !b.is_empty() {
        if b.len() < HDR {
            return Err(format!("{} trailing bytes, less than a header", b.len()));
        }
        let h = parse_hdr(b);
        let end = HDR + h.size as usize;
        if b.len() < end {
            return Err(format!("message code {} declares {} payload bytes, only {} present", h.code, h.size, b.len() - HDR));
        }
        v.push((h, b[HDR..end].to_vec()));
        b = &b[end..];
    }
    Ok(v)
}

// --- typed front-end requests -------------------------------------------------------------------

#[derive(Clone, Debug, PartialEq)]
pub struct Region {
    pub gpa: u64,
    pub size: u64,
    pub uva: u64,
    pub off: u64,
}

impl Region {
    /// "Memory region description": guest address, size, user address, mmap offset (4 x u64)
    pub fn put(&self, v: &mut Vec<u8>) {
        p64(v, self.gpa);
        p64(v, self.size);
        p64(v, self.uva);
        p64(v, self.off);
    }
    pub fn get(b: &[u8], o: usize) -> Region {
        Region {
            gpa: g64(b, o),
            size: g64(b, o + 8),
            uva: g64(b, o + 16),
            off: g64(b, o + 24),
        }
    }
    /// validity rule of the property text: non-zero size, no wrap of guest/user/mmap range
    pub fn valid(&self) -> bool {
        self.size != 0
            && self.gpa.checked_add(self.size).is_some()
            && self.uva.checked_add(self.size).is_some()
            && self.off.checked_add(self.size).is_some()
    }
}

#[derive(Clone, Debug, PartialEq)]
pub struct Inflight {
    pub mmap_size: u64,
    pub mmap_offset: u64,
    pub num_queues: u16,
    pub queue_size: u16,
}

impl Inflight {
    /// "Inflight description": u64 mmap size, u64 mmap offset, u16 num queues, u16 queue size;
    /// the C struct is not packed, so it occupies 24 bytes.
    pub fn bytes(&self) -> Vec<u8> {
        let mut v = Vec::new();
        p64(&mut v, self.mmap_size);
        p64(&mut v, self.mmap_offset);
        p16(&mut v, self.num_queues);
        p16(&mut v, self.queue_size);
        v.extend_from_slice(&[0; 4]);
        v
    }
    pub fn get(b: &[u8]) -> Inflight {
        Inflight {
            mmap_size: g64(b, 0),
            mmap_offset: g64(b, 8),
            num_queues: g16(b, 16),
            queue_size: g16(b, 18),
        }
    }
}

#[derive(Clone, Debug, PartialEq)]
pub struct MMap {
    pub shmid: u8,
    pub fd_offset: u64,
    pub shm_offset: u64,
    pub len: u64,
    pub flags: u64,
}

impl MMap {
    /// u8 shmid, u8 padding[7], u64 fd_offset, u64 shm_offset, u64 len, u64 flags (40 bytes)
    pub fn bytes(&self) -> Vec<u8> {
        let mut v = vec![self.shmid, 0, 0, 0, 0, 0, 0, 0];
        p64(&mut v, self.fd_offset);
        p64(&mut v, self.shm_offset);
        p64(&mut v, self.len);
        p64(&mut v, self.flags);
        v
    }
    pub fn get(b: &[u8]) -> MMap {
        MMap {
            shmid: b[0],
            fd_offset: g64(b, 8),
            shm_offset: g64(b, 16),
            len: g64(b, 24),
            flags: g64(b, 32),
        }
    }
    pub fn valid(&self) -> bool {
        self.len != 0
            && self.fd_offset.checked_add(self.len).is_some()
            && self.shm_offset.checked_add(self.len).is_some()
            && self.flags & !1 == 0
    }
}

#[derive(Clone, Debug, PartialEq)]
pub enum FReq {
    GetFeatures,
    SetFeatures(u64),
    SetOwner,
    ResetOwner,
    SetMemTable(Vec<Region>),
    SetLogBase { size: u64, off: u64 },
    SetVringNum { idx: u32, num: u32 },
    SetVringAddr { idx: u32, flags: u32, desc: u64, used: u64, avail: u64, log: u64 },
    SetVringBase { idx: u32, num: u32 },
    GetVringBase { idx: u32 },
    SetVringKick { idx: u8, nofd: bool },
    SetVringCall { idx: u8, nofd: bool },
    SetVringErr { idx: u8, nofd: bool },
    GetProtocolFeatures,
    SetProtocolFeatures(u64),
    GetQueueNum,
    SetVringEnable { idx: u32, num: u32 },
    GetConfig { off: u32, size: u32, flags: u32, payload: Vec<u8> },
    SetConfig { off: u32, flags: u32, payload: Vec<u8> },
    SetBackendReqFd,
    GetInflightFd(Inflight),
    SetInflightFd(Inflight),
    GpuSetSocket,
    ResetDevice,
    GetMaxMemSlots,
    AddMemReg(Region),
    RemMemReg(Region),
    GetSharedObject([u8; 16]),
    SetDeviceStateFd { dir: u32, phase: u32 },
    CheckDeviceState,
    GetShmemConfig,
}

/// What the protocol prescribes as answer to a request.
#[derive(Clone, Copy, Debug, PartialEq)]
pub enum ReplyRule {
    /// a reply message is defined for this request
    Reply,
    /// no reply defined: a u64 acknowledgement iff NEED_REPLY is set and REPLY_ACK negotiated
    Ack,
}

#[derive(Clone, Copy, Debug, PartialEq)]
pub enum Gate {
    None,
    Proto(u64),
    /// VHOST_USER_F_PROTOCOL_FEATURES acknowledged in SET_FEATURES
    VirtioProtocolFeatures,
}

impl FReq {
    pub fn code(&self) -> u32 {
        use FReq::*;
        match self {
            GetFeatures => fr::GET_FEATURES,
            SetFeatures(_) => fr::SET_FEATURES,
            SetOwner => fr::SET_OWNER,
            ResetOwner => fr::RESET_OWNER,
            SetMemTable(_) => fr::SET_MEM_TABLE,
            SetLogBase { .. } => fr::SET_LOG_BASE,
            SetVringNum { .. } => fr::SET_VRING_NUM,
            SetVringAddr { .. } => fr::SET_VRING_ADDR,
            SetVringBase { .. } => fr::SET_VRING_BASE,
            GetVringBase { .. } => fr::GET_VRING_BASE,
            SetVringKick { .. } => fr::SET_VRING_KICK,
            SetVringCall { .. } => fr::SET_VRING_CALL,
            SetVringErr { .. } => fr::SET_VRING_ERR,
            GetProtocolFeatures => fr::GET_PROTOCOL_FEATURES,
            SetProtocolFeatures(_) => fr::SET_PROTOCOL_FEATURES,
            GetQueueNum => fr::GET_QUEUE_NUM,
            SetVringEnable { .. } => fr::SET_VRING_ENABLE,
            GetConfig { .. } => fr::GET_CONFIG,
            SetConfig { .. } => fr::SET_CONFIG,
            SetBackendReqFd => fr::SET_BACKEND_REQ_FD,
            GetInflightFd(_) => fr::GET_INFLIGHT_FD,
            SetInflightFd(_) => fr::SET_INFLIGHT_FD,
            GpuSetSocket => fr::GPU_SET_SOCKET,
            ResetDevice => fr::RESET_DEVICE,
            GetMaxMemSlots => fr::GET_MAX_MEM_SLOTS,
            AddMemReg(_) => fr::ADD_MEM_REG,
            RemMemReg(_) => fr::REM_MEM_REG,
            GetSharedObject(_) => fr::GET_SHARED_OBJECT,
            SetDeviceStateFd { .. } => fr::SET_DEVICE_STATE_FD,
            CheckDeviceState => fr::CHECK_DEVICE_STATE,
            GetShmemConfig => fr::GET_SHMEM_CONFIG,
        }
    }

    pub fn name(&self) -> &'static str {
        use FReq::*;
        match self {
            GetFeatures => "GET_FEATURES",
            SetFeatures(_) => "SET_FEATURES",
            SetOwner => "SET_OWNER",
            ResetOwner => "RESET_OWNER",
            SetMemTable(_) => "SET_MEM_TABLE",
            SetLogBase { .. } => "SET_LOG_BASE",
            SetVringNum { .. } => "SET_VRING_NUM",
            SetVringAddr { .. } => "SET_VRING_ADDR",
            SetVringBase { .. } => "SET_VRING_BASE",
            GetVringBase { .. } => "GET_VRING_BASE",
            SetVringKick { .. } => "SET_VRING_KICK",
            SetVringCall { .. } => "SET_VRING_CALL",
            SetVringErr { .. } => "SET_VRING_ERR",
            GetProtocolFeatures => "GET_PROTOCOL_FEATURES",
            SetProtocolFeatures(_) => "SET_PROTOCOL_FEATURES",
            GetQueueNum => "GET_QUEUE_NUM",
            SetVringEnable { .. } => "SET_VRING_ENABLE",
            GetConfig { .. } => "GET_CONFIG",
            SetConfig { .. } => "SET_CONFIG",
            SetBackendReqFd => "SET_BACKEND_REQ_FD",
            GetInflightFd(_) => "GET_INFLIGHT_FD",
            SetInflightFd(_) => "SET_INFLIGHT_FD",
            GpuSetSocket => "GPU_SET_SOCKET",
            ResetDevice => "RESET_DEVICE",
            GetMaxMemSlots => "GET_MAX_MEM_SLOTS",
            AddMemReg(_) => "ADD_MEM_REG",
            RemMemReg(_) => "REM_MEM_REG",
            GetSharedObject(_) => "GET_SHARED_OBJECT",
            SetDeviceStateFd { .. } => "SET_DEVICE_STATE_FD",
            CheckDeviceState => "CHECK_DEVICE_STATE",
            GetShmemConfig => "GET_SHMEM_CONFIG",
        }
    }

    /// Payload bytes at the offsets the specification gives.
    pub fn body(&self) -> Vec<u8> {
        use FReq::*;
        let mut v = Vec::new();
        match self {
            GetFeatures | SetOwner | ResetOwner | GetProtocolFeatures | GetQueueNum | SetBackendReqFd
            | GpuSetSocket | ResetDevice | GetMaxMemSlots | CheckDeviceState | GetShmemConfig => {}
            // "A single 64-bit integer"
            SetFeatures(x) | SetProtocolFeatures(x) => p64(&mut v, *x),
            // "Multiple memory regions description": u32 nregions, u32 padding, regions
            SetMemTable(rs) => {
                p32(&mut v, rs.len() as u32);
                p32(&mut v, 0);
                for r in rs {
                    r.put(&mut v);
                }
            }
            // "Log description": u64 log size, u64 log offset
            SetLogBase { size, off } => {
                p64(&mut v, *size);
                p64(&mut v, *off);
            }
            // "A vring state description": u32 index, u32 num
            SetVringNum { idx, num } | SetVringBase { idx, num } | SetVringEnable { idx, num } => {
                p32(&mut v, *idx);
                p32(&mut v, *num);
            }
            GetVringBase { idx } => {
                p32(&mut v, *idx);
                p32(&mut v, 0);
            }
            // "A vring address description": u32 index, u32 flags, u64 descriptor, u64 used,
            // u64 available, u64 log
            SetVringAddr { idx, flags, desc, used, avail, log } => {
                p32(&mut v, *idx);
                p32(&mut v, *flags);
                p64(&mut v, *desc);
                p64(&mut v, *used);
                p64(&mut v, *avail);
                p64(&mut v, *log);
            }
            // u64: bits 0-7 vring index, bit 8 "invalid FD" flag
            SetVringKick { idx, nofd } | SetVringCall { idx, nofd } | SetVringErr { idx, nofd } => {
                p64(&mut v, *idx as u64 | if *nofd { 0x100 } else { 0 });
            }
            // "Virtio device config space": u32 offset, u32 size, u32 flags, payload
            GetConfig { off, size, flags, payload } => {
                p32(&mut v, *off);
                p32(&mut v, *size);
                p32(&mut v, *flags);
                v.extend_from_slice(payload);
            }
            SetConfig { off, flags, payload } => {
                p32(&mut v, *off);
                p32(&mut v, payload.len() as u32);
                p32(&mut v, *flags);
                v.extend_from_slice(payload);
            }
            GetInflightFd(i) | SetInflightFd(i) => v = i.bytes(),
            // "Single memory region description": u64 padding, then a region
            AddMemReg(r) | RemMemReg(r) => {
                p64(&mut v, 0);
                r.put(&mut v);
            }
            // 16-byte UUID
            GetSharedObject(u) => v.extend_from_slice(u),
            // "Device state transfer parameters": u32 direction, u32 phase
            SetDeviceStateFd { dir, phase } => {
                p32(&mut v, *dir);
                p32(&mut v, *phase);
            }
        }
        v
    }

    /// Number of descriptors the request carries in ancillary data.
    pub fn nfds(&self) -> usize {
        use FReq::*;
        match self {
            SetMemTable(rs) => rs.len(),
            SetLogBase { .. } | SetBackendReqFd | SetInflightFd(_) | GpuSetSocket | AddMemReg(_)
            | SetDeviceStateFd { .. } => 1,
            SetVringKick { nofd, .. } | SetVringCall { nofd, .. } | SetVringErr { nofd, .. } => {
                if *nofd {
                    0
                } else {
                    1
                }
            }
            _ => 0,
        }
    }

    pub fn reply_rule(&self) -> ReplyRule {
        use FReq::*;
        match self {
            GetFeatures | GetProtocolFeatures | GetVringBase { .. } | GetQueueNum | GetConfig { .. }
            | GetInflightFd(_) | GetMaxMemSlots | GetSharedObject(_) | SetDeviceStateFd { .. }
            | CheckDeviceState | GetShmemConfig | SetLogBase { .. } => ReplyRule::Reply,
            _ => ReplyRule::Ack,
        }
    }

    /// Requests for which the protocol defines an in-band failure encoding of the reply.
    pub fn inband_failure(&self) -> bool {
        matches!(
            self,
            FReq::GetConfig { .. } | FReq::GetSharedObject(_) | FReq::SetDeviceStateFd { .. } | FReq::CheckDeviceState
        )
    }

    pub fn gate(&self) -> Gate {
        use FReq::*;
        match self {
            GetQueueNum => Gate::Proto(pf::MQ),
            GetConfig { .. } | SetConfig { .. } => Gate::Proto(pf::CONFIG),
            SetBackendReqFd => Gate::Proto(pf::BACKEND_REQ),
            GetInflightFd(_) | SetInflightFd(_) => Gate::Proto(pf::INFLIGHT_SHMFD),
            GetMaxMemSlots | AddMemReg(_) | RemMemReg(_) => Gate::Proto(pf::CONFIGURE_MEM_SLOTS),
            ResetDevice => Gate::Proto(pf::RESET_DEVICE),
            GetSharedObject(_) => Gate::Proto(pf::SHARED_OBJECT),
            GetShmemConfig => Gate::Proto(pf::SHMEM),
            SetLogBase { .. } => Gate::Proto(pf::LOG_SHMFD),
            SetVringEnable { .. } => Gate::VirtioProtocolFeatures,
            _ => Gate::None,
        }
    }

    /// Validity rules of the protocol as listed in property C05 (independent of the crate's
    /// validators).
    pub fn valid(&self) -> bool {
        use FReq::*;
        match self {
            SetMemTable(rs) => !rs.is_empty() && rs.len() <= 32 && rs.iter().all(|r| r.valid()),
            AddMemReg(r) | RemMemReg(r) => r.valid(),
            SetVringAddr { flags, desc, used, avail, .. } => {
                flags & !1 == 0 && desc % 16 == 0 && avail % 2 == 0 && used % 4 == 0
            }
            GetConfig { off, size, flags, payload } => {
                *size >= 1
                    && (*off as u64 + *size as u64) <= 0x1000
                    && flags & !3 == 0
                    && payload.len() == *size as usize
            }
            SetConfig { off, flags, payload } => {
                !payload.is_empty() && (*off as u64 + payload.len() as u64) <= 0x1000 && flags & !3 == 0
            }
            SetVringEnable { num, .. } => *num <= 1,
            GetInflightFd(i) | SetInflightFd(i) => i.num_queues != 0 && i.queue_size != 0,
            SetLogBase { size, off } => *size != 0 && off.checked_add(*size).is_some(),
            SetDeviceStateFd { dir, phase } => *dir <= 1 && *phase == 0,
            GetSharedObject(u) => *u != [0u8; 16] && *u != [0xffu8; 16],
            _ => true,
        }
    }

    /// Decode a request from (code, body). `None` if the body length does not fit the type.
    pub fn decode(code: u32, b: &[u8]) -> Option<FReq> {
        use FReq::*;
        let n = b.len();
        Some(match code {
            fr::GET_FEATURES if n == 0 => GetFeatures,
            fr::SET_FEATURES if n == 8 => SetFeatures(g64(b, 0)),
            fr::SET_OWNER if n == 0 => SetOwner,
            fr::RESET_OWNER if n == 0 => ResetOwner,
            fr::SET_MEM_TABLE if n >= 8 && (n - 8) % 32 == 0 && g32(b, 0) as usize == (n - 8) / 32 => {
                SetMemTable((0..(n - 8) / 32).map(|i| Region::get(b, 8 + 32 * i)).collect())
            }
            fr::SET_LOG_BASE if n == 16 => SetLogBase { size: g64(b, 0), off: g64(b, 8) },
            fr::SET_VRING_NUM if n == 8 => SetVringNum { idx: g32(b, 0), num: g32(b, 4) },
            fr::SET_VRING_ADDR if n == 40 => SetVringAddr {
                idx: g32(b, 0),
                flags: g32(b, 4),
                desc: g64(b, 8),
                used: g64(b, 16),
                avail: g64(b, 24),
                log: g64(b, 32),
            },
            fr::SET_VRING_BASE if n == 8 => SetVringBase { idx: g32(b, 0), num: g32(b, 4) },
            fr::GET_VRING_BASE if n == 8 => GetVringBase { idx: g32(b, 0) },
            fr::SET_VRING_KICK if n == 8 => SetVringKick { idx: b[0], nofd: g64(b, 0) & 0x100 != 0 },
            fr::SET_VRING_CALL if n == 8 => SetVringCall { idx: b[0], nofd: g64(b, 0) & 0x100 != 0 },
            fr::SET_VRING_ERR if n == 8 => SetVringErr { idx: b[0], nofd: g64(b, 0) & 0x100 != 0 },
            fr::GET_PROTOCOL_FEATURES if n == 0 => GetProtocolFeatures,
            fr::SET_PROTOCOL_FEATURES if n == 8 => SetProtocolFeatures(g64(b, 0)),
            fr::GET_QUEUE_NUM if n == 0 => GetQueueNum,
            fr::SET_VRING_ENABLE if n == 8 => SetVringEnable { idx: g32(b, 0), num: g32(b, 4) },
            fr::GET_CONFIG if n >= 12 => GetConfig {
                off: g32(b, 0),
                size: g32(b, 4),
                flags: g32(b, 8),
                payload: b[12..].to_vec(),
            },
            fr::SET_CONFIG if n >= 12 && g32(b, 4) as usize == n - 12 => SetConfig {
                off: g32(b, 0),
                flags: g32(b, 8),
                payload: b[12..].to_vec(),
            },
            fr::SET_BACKEND_REQ_FD if n == 0 => SetBackendReqFd,
            fr::GET_INFLIGHT_FD if n == 24 => GetInflightFd(Inflight::get(b)),
            fr::SET_INFLIGHT_FD if n == 24 => SetInflightFd(Inflight::get(b)),
            fr::GPU_SET_SOCKET if n == 0 => GpuSetSocket,
            fr::RESET_DEVICE if n == 0 => ResetDevice,
            fr::GET_MAX_MEM_SLOTS if n == 0 => GetMaxMemSlots,
            fr::ADD_MEM_REG if n == 40 => AddMemReg(Region::get(b, 8)),
            fr::REM_MEM_REG if n == 40 => RemMemReg(Region::get(b, 8)),
            fr::GET_SHARED_OBJECT if n == 16 => GetSharedObject(b[..16].try_into().unwrap()),
            fr::SET_DEVICE_STATE_FD if n == 8 => SetDeviceStateFd { dir: g32(b, 0), phase: g32(b, 4) },
            fr::CHECK_DEVICE_STATE if n == 0 => CheckDeviceState,
            fr::GET_SHMEM_CONFIG if n == 0 => GetShmemConfig,
            _ => return None,
        })
    }

    /// Full wire bytes with the given NEED_REPLY setting.
    pub fn wire(&self, need_reply: bool) -> Vec<u8> {
        let fl = VERSION | if need_reply { F_NEED_REPLY } else { 0 };
        message(self.code(), fl, &self.body())
    }
}

/// Negotiation state of one connection as the protocol defines it.
#[derive(Clone, Debug, Default, PartialEq)]
pub struct Nego {
    /// virtio features last offered in a GET_FEATURES reply
    pub offered_virtio: u64,
    /// virtio features last acknowledged with SET_FEATURES
    pub acked_virtio: u64,
    /// protocol features last acknowledged with SET_PROTOCOL_FEATURES
    pub acked_proto: u64,
}

impl Nego {
    pub fn reply_ack(&self) -> bool {
        self.offered_virtio & VHOST_USER_F_PROTOCOL_FEATURES != 0 && self.acked_proto & pf::REPLY_ACK != 0
    }
    pub fn gate_open(&self, g: Gate) -> bool {
        match g {
            Gate::None => true,
            Gate::Proto(b) => self.acked_proto & b != 0,
            Gate::VirtioProtocolFeatures => self.acked_virtio & VHOST_USER_F_PROTOCOL_FEATURES != 0,
        }
    }
}

// --- typed back-end requests --------------------------------------------------------------------

#[derive(Clone, Debug, PartialEq)]
pub enum BReq {
    ConfigChange,
    SharedObjectAdd([u8; 16]),
    SharedObjectRemove([u8; 16]),
    SharedObjectLookup([u8; 16]),
    ShmemMap(MMap),
    ShmemUnmap(MMap),
}

impl BReq {
    pub fn code(&self) -> u32 {
        match self {
            BReq::ConfigChange => br::CONFIG_CHANGE_MSG,
            BReq::SharedObjectAdd(_) => br::SHARED_OBJECT_ADD,
            BReq::SharedObjectRemove(_) => br::SHARED_OBJECT_REMOVE,
            BReq::SharedObjectLookup(_) => br::SHARED_OBJECT_LOOKUP,
            BReq::ShmemMap(_) => br::SHMEM_MAP,
            BReq::ShmemUnmap(_) => br::SHMEM_UNMAP,
        }
    }
    pub fn name(&self) -> &'static str {
        match self {
            BReq::ConfigChange => "CONFIG_CHANGE_MSG",
            BReq::SharedObjectAdd(_) => "SHARED_OBJECT_ADD",
            BReq::SharedObjectRemove(_) => "SHARED_OBJECT_REMOVE",
            BReq::SharedObjectLookup(_) => "SHARED_OBJECT_LOOKUP",
            BReq::ShmemMap(_) => "SHMEM_MAP",
            BReq::ShmemUnmap(_) => "SHMEM_UNMAP",
        }
    }
    pub fn body(&self) -> Vec<u8> {
        match self {
            BReq::ConfigChange => Vec::new(),
            BReq::SharedObjectAdd(u) | BReq::SharedObjectRemove(u) | BReq::SharedObjectLookup(u) => u.to_vec(),
            BReq::ShmemMap(m) | BReq::ShmemUnmap(m) => m.bytes(),
        }
    }
    pub fn nfds(&self) -> usize {
        match self {
            BReq::SharedObjectLookup(_) | BReq::ShmemMap(_) => 1,
            _ => 0,
        }
    }
    pub fn valid(&self) -> bool {
        match self {
            BReq::ConfigChange => true,
            BReq::SharedObjectAdd(u) | BReq::SharedObjectRemove(u) | BReq::SharedObjectLookup(u) => {
                *u != [0u8; 16] && *u != [0xffu8; 16]
            }
            BReq::ShmemMap(m) | BReq::ShmemUnmap(m) => m.valid(),
        }
    }
    pub fn decode(code: u32, b: &[u8]) -> Option<BReq> {
        let n = b.len();
        Some(match code {
            br::CONFIG_CHANGE_MSG if n == 0 => BReq::ConfigChange,
            br::SHARED_OBJECT_ADD if n == 16 => BReq::SharedObjectAdd(b.try_into().unwrap()),
            br::SHARED_OBJECT_REMOVE if n == 16 => BReq::SharedObjectRemove(b.try_into().unwrap()),
            br::SHARED_OBJECT_LOOKUP if n == 16 => BReq::SharedObjectLookup(b.try_into().unwrap()),
            br::SHMEM_MAP if n == 40 => BReq::ShmemMap(MMap::get(b)),
            br::SHMEM_UNMAP if n == 40 => BReq::ShmemUnmap(MMap::get(b)),
            _ => return None,
        })
    }
    pub fn wire(&self, need_reply: bool) -> Vec<u8> {
        let fl = VERSION | if need_reply { F_NEED_REPLY } else { 0 };
        message(self.code(), fl, &self.body())
    }
}

/// Is `(hdr, body, nfds)` a well-formed reply to the request `(code)`?  Checks the generic part:
/// REPLY set, same code, version 1, no reserved bits. Body rules are per call site.
pub fn reply_header_ok(h: &Hdr, req_code: u32) -> bool {
    h.code == req_code && h.flags & F_REPLY != 0 && h.flags & 0x3 == VERSION && h.flags & !0xf == 0
}

// --- typed gpu requests (vhost-user-gpu.rst: "VhostUserGpuMsg") ---------------------------------

#[derive(Clone, Debug, PartialEq)]
pub enum GReq {
    GetProtocolFeatures,
    SetProtocolFeatures(u64),
    GetDisplayInfo,
    CursorPos { scanout_id: u32, x: u32, y: u32 },
    CursorPosHide { scanout_id: u32, x: u32, y: u32 },
    CursorUpdate { scanout_id: u32, x: u32, y: u32, hot_x: u32, hot_y: u32, data: Vec<u8> },
    Scanout { scanout_id: u32, width: u32, height: u32 },
    Update { scanout_id: u32, x: u32, y: u32, width: u32, height: u32, data: Vec<u8> },
    DmabufScanout { f: [u32; 10], with_fd: bool },
    DmabufScanout2 { f: [u32; 10], modifier: u64, with_fd: bool },
    DmabufUpdate { scanout_id: u32, x: u32, y: u32, width: u32, height: u32 },
    GetEdid { scanout_id: u32 },
}

impl GReq {
    pub fn code(&self) -> u32 {
        match self {
            GReq::GetProtocolFeatures => gr::GET_PROTOCOL_FEATURES,
            GReq::SetProtocolFeatures(_) => gr::SET_PROTOCOL_FEATURES,
            GReq::GetDisplayInfo => gr::GET_DISPLAY_INFO,
            GReq::CursorPos { .. } => gr::CURSOR_POS,
            GReq::CursorPosHide { .. } => gr::CURSOR_POS_HIDE,
            GReq::CursorUpdate { .. } => gr::CURSOR_UPDATE,
            GReq::Scanout { .. } => gr::SCANOUT,
            GReq::Update { .. } => gr::UPDATE,
            GReq::DmabufScanout { .. } => gr::DMABUF_SCANOUT,
            GReq::DmabufScanout2 { .. } => gr::DMABUF_SCANOUT2,
            GReq::DmabufUpdate { .. } => gr::DMABUF_UPDATE,
            GReq::GetEdid { .. } => gr::GET_EDID,
        }
    }
    pub fn name(&self) -> &'static str {
        match self {
            GReq::GetProtocolFeatures => "GPU_GET_PROTOCOL_FEATURES",
            GReq::SetProtocolFeatures(_) => "GPU_SET_PROTOCOL_FEATURES",
            GReq::GetDisplayInfo => "GPU_GET_DISPLAY_INFO",
            GReq::CursorPos { .. } => "GPU_CURSOR_POS",
            GReq::CursorPosHide { .. } => "GPU_CURSOR_POS_HIDE",
            GReq::CursorUpdate { .. } => "GPU_CURSOR_UPDATE",
            GReq::Scanout { .. } => "GPU_SCANOUT",
            GReq::Update { .. } => "GPU_UPDATE",
            GReq::DmabufScanout { .. } => "GPU_DMABUF_SCANOUT",
            GReq::DmabufScanout2 { .. } => "GPU_DMABUF_SCANOUT2",
            GReq::DmabufUpdate { .. } => "GPU_DMABUF_UPDATE",
            GReq::GetEdid { .. } => "GPU_GET_EDID",
        }
    }
    pub fn body(&self) -> Vec<u8> {
        let mut v = Vec::new();
        match self {
            GReq::GetProtocolFeatures | GReq::GetDisplayInfo => {}
            GReq::SetProtocolFeatures(x) => p64(&mut v, *x),
            // VhostUserGpuCursorPos: u32 scanout_id, u32 x, u32 y
            GReq::CursorPos { scanout_id, x, y } | GReq::CursorPosHide { scanout_id, x, y } => {
                p32(&mut v, *scanout_id);
                p32(&mut v, *x);
                p32(&mut v, *y);
            }
            // VhostUserGpuCursorUpdate: pos, u32 hot_x, u32 hot_y, u32 data[64*64]
            GReq::CursorUpdate { scanout_id, x, y, hot_x, hot_y, data } => {
                p32(&mut v, *scanout_id);
                p32(&mut v, *x);
                p32(&mut v, *y);
                p32(&mut v, *hot_x);
                p32(&mut v, *hot_y);
                v.extend_from_slice(data);
            }
            // VhostUserGpuScanout: u32 scanout_id, u32 width, u32 height
            GReq::Scanout { scanout_id, width, height } => {
                p32(&mut v, *scanout_id);
                p32(&mut v, *width);
                p32(&mut v, *height);
            }
            // VhostUserGpuUpdate: u32 scanout_id, x, y, width, height, u8 data[]
            GReq::Update { scanout_id, x, y, width, height, data } => {
                for f in [scanout_id, x, y, width, height] {
                    p32(&mut v, *f);
                }
                v.extend_from_slice(data);
            }
            GReq::DmabufUpdate { scanout_id, x, y, width, height } => {
                for f in [scanout_id, x, y, width, height] {
                    p32(&mut v, *f);
                }
            }
            // VhostUserGpuDMABUFScanout: scanout_id, x, y, width, height, fd_width, fd_height,
            // fd_stride, fd_flags, fd_drm_fourcc (10 x u32)
            GReq::DmabufScanout { f, .. } => {
                for x in f {
                    p32(&mut v, *x);
                }
            }
            // ...Scanout2: the above followed by u64 modifier
            GReq::DmabufScanout2 { f, modifier, .. } => {
                for x in f {
                    p32(&mut v, *x);
                }
                p64(&mut v, *modifier);
            }
            GReq::GetEdid { scanout_id } => p32(&mut v, *scanout_id),
        }
        v
    }
    pub fn nfds(&self) -> usize {
        match self {
            GReq::DmabufScanout { with_fd, .. } | GReq::DmabufScanout2 { with_fd, .. } => *with_fd as usize,
            _ => 0,
        }
    }
    /// size of the reply the protocol defines (None = no reply)
    pub fn reply_size(&self) -> Option<usize> {
        match self {
            GReq::GetProtocolFeatures => Some(8),
            GReq::GetDisplayInfo => Some(gr::DISPLAY_INFO_SIZE),
            GReq::GetEdid { .. } => Some(gr::EDID_RESP_SIZE),
            GReq::DmabufUpdate { .. } => Some(0),
            _ => None,
        }
    }
}

/// Size of the fixed-size payload struct of a front-end request (None = variable).
pub fn freq_fixed_size(code: u32) -> Option<usize> {
    Some(match code {
        fr::GET_FEATURES | fr::SET_OWNER | fr::RESET_OWNER | fr::GET_PROTOCOL_FEATURES | fr::GET_QUEUE_NUM
        | fr::SET_BACKEND_REQ_FD | fr::GPU_SET_SOCKET | fr::RESET_DEVICE | fr::GET_MAX_MEM_SLOTS
        | fr::CHECK_DEVICE_STATE | fr::GET_SHMEM_CONFIG => 0,
        fr::SET_FEATURES | fr::SET_PROTOCOL_FEATURES | fr::SET_VRING_NUM | fr::SET_VRING_BASE | fr::GET_VRING_BASE
        | fr::SET_VRING_KICK | fr::SET_VRING_CALL | fr::SET_VRING_ERR | fr::SET_VRING_ENABLE
        | fr::SET_DEVICE_STATE_FD => 8,
        fr::SET_LOG_BASE | fr::GET_SHARED_OBJECT => 16,
        fr::SET_VRING_ADDR | fr::ADD_MEM_REG | fr::REM_MEM_REG => 40,
        fr::GET_INFLIGHT_FD | fr::SET_INFLIGHT_FD => 24,
        _ => return None,
    })
}

impl FReq {
    /// Like `decode`, but a fixed-size request may carry surplus payload bytes (whether that is
    /// an error is not among the validity rules the properties list). A payload *shorter* than
    /// the structure still fails: dispatching it would mean reading outside the message.
    pub fn decode_prefix(code: u32, b: &[u8]) -> Option<FReq> {
        match freq_fixed_size(code) {
            Some(k) if b.len() >= k => FReq::decode(code, &b[..k]),
            Some(_) => None,
            None => FReq::decode(code, b),
        }
    }
}

impl BReq {
    pub fn decode_prefix(code: u32, b: &[u8]) -> Option<BReq> {
        let k = match code {
            br::CONFIG_CHANGE_MSG => 0,
            br::SHARED_OBJECT_ADD | br::SHARED_OBJECT_REMOVE | br::SHARED_OBJECT_LOOKUP => 16,
            br::SHMEM_MAP | br::SHMEM_UNMAP => 40,
            _ => return None,
        };
        if b.len() >= k {
            BReq::decode(code, &b[..k])
        } else {
            None
        }
    }
}
