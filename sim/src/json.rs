//! Minimal JSON value, writer and parser (no serde in the offline lock file).

use std::collections::BTreeMap;
use std::fmt::Write;

#[derive(Clone, Debug, PartialEq)]
pub enum J {
    Null,
    Bool(bool),
    Int(i128),
    Num(f64),
    Str(String),
    Arr(Vec<J>),
    Obj(BTreeMap<String, J>),
}

impl J {
    pub fn obj() -> J {
        J::Obj(BTreeMap::new())
    }
    pub fn set(mut self, k: &str, v: J) -> J {
        if let J::Obj(m) = &mut self {
            m.insert(k.to_string(), v);
        }
        self
    }
    pub fn put(&mut self, k: &str, v: J) {
        if let J::Obj(m) = self {
            m.insert(k.to_string(), v);
        }
    }
    pub fn get(&self, k: &str) -> Option<&J> {
        match self {
            J::Obj(m) => m.get(k),
            _ => None,
        }
    }
    pub fn as_str(&self) -> Option<&str> {
        match self {
            J::Str(s) => Some(s),
            _ => None,
        }
    }
    pub fn as_u64(&self) -> Option<u64> {
        match self {
            J::Int(i) => Some(*i as u64),
            J::Num(f) => Some(*f as u64),
            _ => None,
        }
    }
    pub fn as_arr(&self) -> Option<&Vec<J>> {
        match self {
            J::Arr(a) => Some(a),
            _ => None,
        }
    }
    pub fn s(x: &str) -> J {
        J::Str(x.to_string())
    }
    pub fn u(x: u64) -> J {
        J::Int(x as i128)
    }
    pub fn arr_u64(xs: &[u64]) -> J {
        J::Arr(xs.iter().map(|x| J::u(*x)).collect())
    }
    pub fn arr_str<S: AsRef<str>>(xs: &[S]) -> J {
        J::Arr(xs.iter().map(|x| J::s(x.as_ref())).collect())
    }
    pub fn to_string(&self) -> String {
        let mut s = String::new();
        self.write(&mut s, 0, false);
        s
    }
    pub fn pretty(&self) -> String {
        let mut s = String::new();
        self.write(&mut s, 0, true);
        s.push('\n');
        s
    }
    fn write(&self, o: &mut String, ind: usize, pretty: bool) {
        let nl = |o: &mut String, n: usize| {
            if pretty {
                o.push('\n');
                for _ in 0..n {
                    o.push(' ');
                }
            }
        };
        match self {
            J::Null => o.push_str("null"),
            J::Bool(b) => o.push_str(if *b { "true" } else { "false" }),
            J::Int(i) => {
                let _ = write!(o, "{i}");
            }
            J::Num(f) => {
                if f.is_finite() {
                    let _ = write!(o, "{f}");
                } else {
                    o.push_str("null");
                }
            }
            J::Str(s) => {
                o.push('"');
                for c in s.chars() {
                    match c {
                        '"' => o.push_str("\\\""),
                        '\\' => o.push_str("\\\\"),
                        '\n' => o.push_str("\\n"),
                        '\r' => o.push_str("\\r"),
                        '\t' => o.push_str("\\t"),
                        c if (c as u32) < 0x20 => {
                            let _ = write!(o, "\\u{:04x}", c as u32);
                        }
                        c => o.push(c),
                    }
                }
                o.push('"');
            }
            J::Arr(a) => {
                o.push('[');
                // arrays of scalars stay on one line
                let scalar = a.iter().all(|x| !matches!(x, J::Arr(_) | J::Obj(_)));
                for (i, x) in a.iter().enumerate() {
                    if i > 0 {
                        o.push(',');
                    }
                    if !scalar {
                        nl(o, ind + 1);
                    }
                    x.write(o, ind + 1, pretty);
                }
                if !scalar && !a.is_empty() {
                    nl(o, ind);
                }
                o.push(']');
            }
            J::Obj(m) => {
                o.push('{');
                for (i, (k, v)) in m.iter().enumerate() {
                    if i > 0 {
                        o.push(',');
                    }
                    nl(o, ind + 1);
                    J::Str(k.clone()).write(o, 0, false);
                    o.push(':');
                    if pretty {
                        o.push(' ');
                    }
                    v.write(o, ind + 1, pretty);
                }
                if !m.is_empty() {
                    nl(o, ind);
                }
                o.push('}');
            }
        }
    }

    pub fn parse(s: &str) -> Result<J, String> {
        let b = s.as_bytes();
        let mut p = 0usize;
        let v = parse_val(b, &mut p)?;
        skip_ws(b, &mut p);
        if p != b.len() {
            return Err(format!("trailing data at {p}"));
        }
        Ok(v)
    }
}

fn skip_ws(b: &[u8], p: &mut usize) {
    while *p < b.len() && (b[*p] as char).is_ascii_whitespace() {
        *p += 1;
    }
}

fn parse_val(b: &[u8], p: &mut usize) -> Result<J, String> {
    skip_ws(b, p);
    if *p >= b.len() {
        return Err("eof".into());
    }
    match b[*p] {
        b'n' => {
            *p += 4;
            Ok(J::Null)
        }
        b't' => {
            *p += 4;
            Ok(J::Bool(true))
        }
        b'f' => {
            *p += 5;
            Ok(J::Bool(false))
        }
        b'"' => Ok(J::Str(parse_str(b, p)?)),
        b'[' => {
            *p += 1;
            let mut v = Vec::new();
            loop {
                skip_ws(b, p);
                if *p < b.len() && b[*p] == b']' {
                    *p += 1;
                    break;
                }
                v.push(parse_val(b, p)?);
                skip_ws(b, p);
                if *p < b.len() && b[*p] == b',' {
                    *p += 1;
                }
            }
            Ok(J::Arr(v))
        }
        b'{' => {
            *p += 1;
            let mut m = BTreeMap::new();
            loop {
                skip_ws(b, p);
                if *p < b.len() && b[*p] == b'}' {
                    *p += 1;
                    break;
                }
                let k = parse_str(b, p)?;
                skip_ws(b, p);
                if *p >= b.len() || b[*p] != b':' {
                    return Err(format!("expected : at {p}"));
                }
                *p += 1;
                let v = parse_val(b, p)?;
                m.insert(k, v);
                skip_ws(b, p);
                if *p < b.len() && b[*p] == b',' {
                    *p += 1;
                }
            }
            Ok(J::Obj(m))
        }
        _ => {
            let st = *p;
            while *p < b.len() && matches!(b[*p], b'-' | b'+' | b'.' | b'e' | b'E' | b'0'..=b'9') {
                *p += 1;
            }
            let t = std::str::from_utf8(&b[st..*p]).map_err(|e| e.to_string())?;
            if let Ok(i) = t.parse::<i128>() {
                Ok(J::Int(i))
            } else {
                t.parse::<f64>().map(J::Num).map_err(|e| format!("{e} at {st}"))
            }
        }
    }
}

fn parse_str(b: &[u8], p: &mut usize) -> Result<String, String> {
    if b[*p] != b'"' {
        return Err(format!("expected string at {p}"));
    }
    *p += 1;
    let mut out = Vec::new();
    while *p < b.len() {
        match b[*p] {
            b'"' => {
                *p += 1;
                return String::from_utf8(out).map_err(|e| e.to_string());
            }
            b'\\' => {
                *p += 1;
                match b[*p] {
                    b'n' => out.push(b'\n'),
                    b'r' => out.push(b'\r'),
                    b't' => out.push(b'\t'),
                    b'u' => {
                        let h = std::str::from_utf8(&b[*p + 1..*p + 5]).map_err(|e| e.to_string())?;
                        let c = u32::from_str_radix(h, 16).map_err(|e| e.to_string())?;
                        let mut buf = [0u8; 4];
                        out.extend_from_slice(
                            char::from_u32(c).unwrap_or('?').encode_utf8(&mut buf).as_bytes(),
                        );
                        *p += 4;
                    }
                    c => out.push(c),
                }
                *p += 1;
            }
            c => {
                out.push(c);
                *p += 1;
            }
        }
    }
    Err("unterminated string".into())
}
