//! Batch runner: worker processes, violation reports, replay, minimisation, evidence.

use std::collections::{BTreeMap, HashSet};
use std::io::Write;
use std::path::{Path, PathBuf};
use std::process::{Child, Command, Stdio};
use std::sync::atomic::Ordering;
use std::sync::Mutex;
use std::time::{Duration, Instant};

use crate::json::J;
use crate::rng::{fnv, Tape, FNV0};
use crate::scen::{self, PropDef, RunCfg, Tier};
use crate::sched::{self, RunStats, Sim, State, Violation, PROGRESS};

pub const VERIF: &str = "/verif";

// ------------------------------------------------------------------------------------------
// per-process run context (needed by the fatal handler and the panic hook)
// ------------------------------------------------------------------------------------------

pub struct RunInfo {
    pub prop: String,
    pub tier: Tier,
    pub seed: u64,
    pub index: u64,
    pub out: PathBuf,
    pub desc: String,
}

pub static RUN: Mutex<Option<RunInfo>> = Mutex::new(None);
pub static PANICS: Mutex<Vec<(String, String)>> = Mutex::new(Vec::new());

pub fn set_desc(d: &str) {
    if let Some(r) = RUN.lock().unwrap().as_mut() {
        r.desc = d.to_string();
    }
}

fn report_json(v: &Violation, stats: &RunStats, harness_error: bool) -> J {
    let g = RUN.lock().unwrap_or_else(|e| e.into_inner());
    let r = g.as_ref().expect("run info");
    let tail: Vec<String> = stats.log.iter().rev().take(60).rev().cloned().collect();
    J::obj()
        .set("property", J::s(&v.prop))
        .set("checked_property", J::s(&r.prop))
        .set("tier", J::s(r.tier.name()))
        .set("seed", J::u(r.seed))
        .set("index", J::u(r.index))
        .set("signature", J::s(&v.signature()))
        .set("clause", J::s(&v.clause))
        .set("message", J::s(&v.msg))
        .set("workload", J::s(&r.desc))
        .set("harness_error", J::Bool(harness_error))
        .set("log_hash", J::s(&format!("{:016x}", stats.log_hash)))
        .set("steps", J::u(stats.steps))
        .set(
            "tapes",
            J::obj()
                .set("w", J::arr_u64(&stats.w))
                .set("s", J::arr_u64(&stats.s))
                .set("f", J::arr_u64(&stats.f)),
        )
        .set("event_log_tail", J::arr_str(&tail))
}

/// Ends the process: 3 = violation report written, 2 = harness error.
fn fatal_handler(v: &Violation, st: &State, harness_error: bool) -> ! {
    let stats = RunStats::from_state(st);
    // a thread of the code under test that panicked usually leaves its peers waiting: report
    // the panic, not the hang it caused
    let lib_panic = PANICS
        .lock()
        .ok()
        .and_then(|p| p.iter().find(|(loc, _)| !(loc.starts_with("src/") || loc.contains("/verif/sim/"))).cloned());
    if let (Some((loc, msg)), false) = (lib_panic, harness_error) {
        let v2 = Violation::new(&v.prop, "panic", loc.clone(), format!("panic at {loc}: {msg} (then: {} {})", v.clause, v.keys));
        fatal_with_stats(&v2, &stats, false)
    }
    fatal_with_stats(v, &stats, harness_error)
}

pub fn fatal_with_stats(v: &Violation, stats: &RunStats, harness_error: bool) -> ! {
    let j = report_json(v, stats, harness_error);
    let out = RUN.lock().unwrap_or_else(|e| e.into_inner()).as_ref().unwrap().out.clone();
    let path = if harness_error {
        out.with_extension("err")
    } else {
        out.with_extension("viol")
    };
    let _ = std::fs::write(&path, j.pretty());
    if harness_error {
        eprintln!("HARNESS-ERROR {} : {}", v.signature(), v.msg);
        hard_exit(2);
    }
    hard_exit(3);
}

/// Leave the process without running thread-local destructors or atexit handlers: other tasks
/// are parked inside library code and the scheduler lock may be held by the caller.
pub fn hard_exit(code: i32) -> ! {
    let _ = std::io::stdout().flush();
    let _ = std::io::stderr().flush();
    // SAFETY: plain _exit.
    unsafe { libc::_exit(code) }
}

pub fn init_process() {
    sched::install_hooks();
    *sched::KNOWN.lock().unwrap() = load_known()
        .into_iter()
        .map(|k| (k.sig_prefix, format!("property={} {}", k.property, k.what)))
        .collect();
    *sched::FATAL.lock().unwrap() = Some(fatal_handler);
    std::panic::set_hook(Box::new(|info| {
        let loc = info
            .location()
            .map(|l| format!("{}:{}", l.file(), l.line()))
            .unwrap_or_default();
        let msg = if let Some(s) = info.payload().downcast_ref::<&str>() {
            s.to_string()
        } else if let Some(s) = info.payload().downcast_ref::<String>() {
            s.clone()
        } else {
            "?".to_string()
        };
        if loc.starts_with("src/") || loc.contains("/verif/sim/") {
            eprintln!("harness panic at {loc}: {msg}");
        }
        if let Ok(mut p) = PANICS.lock() {
            p.push((loc, msg));
        }
    }));
    // watchdog: a token holder that never reaches a sync point means an uninstrumented
    // blocking call; that is a harness error, never a violation.
    std::thread::Builder::new()
        .name("watchdog".into())
        .spawn(|| {
            let mut last = PROGRESS.load(Ordering::Relaxed);
            let mut since = Instant::now();
            loop {
                std::thread::sleep(Duration::from_millis(250));
                let now = PROGRESS.load(Ordering::Relaxed);
                if now != last {
                    last = now;
                    since = Instant::now();
                } else if since.elapsed() > Duration::from_secs(20) {
                    let g = RUN.lock().unwrap_or_else(|e| e.into_inner());
                    if let Some(r) = g.as_ref() {
                        let _ = std::fs::write(
                            r.out.with_extension("err"),
                            J::obj()
                                .set("harness_error", J::Bool(true))
                                .set("message", J::s("watchdog: no scheduling step for 20 s"))
                                .set("seed", J::u(r.seed))
                                .set("index", J::u(r.index))
                                .pretty(),
                        );
                        eprintln!("HARNESS-ERROR watchdog seed={} index={}", r.seed, r.index);
                    }
                    hard_exit(2);
                }
            }
        })
        .unwrap();
}

// ------------------------------------------------------------------------------------------
// fd table snapshot (C09 epilogue of every run)
// ------------------------------------------------------------------------------------------

pub fn fd_snapshot() -> Vec<(i32, String)> {
    let mut v = Vec::new();
    if let Ok(rd) = std::fs::read_dir("/proc/self/fd") {
        for e in rd.flatten() {
            let name = e.file_name().to_string_lossy().to_string();
            if let Ok(fd) = name.parse::<i32>() {
                if let Ok(t) = std::fs::read_link(e.path()) {
                    let t = t.to_string_lossy().to_string();
                    if t.contains("/proc/") && t.ends_with("/fd") {
                        continue;
                    }
                    v.push((fd, t));
                }
            }
        }
    }
    v.sort();
    v
}

// ------------------------------------------------------------------------------------------
// one run
// ------------------------------------------------------------------------------------------

pub struct Replay {
    pub w: Vec<u64>,
    pub s: Vec<u64>,
    pub f: Vec<u64>,
}

pub struct OneRun {
    pub stats: RunStats,
    pub desc: String,
    pub nontrivial: bool,
    pub sweep_key: Option<u64>,
}

pub fn run_one(def: &PropDef, tier: Tier, seed: u64, index: u64, out: &Path, replay: Option<Replay>) -> OneRun {
    *RUN.lock().unwrap() = Some(RunInfo {
        prop: def.id.to_string(),
        tier,
        seed,
        index,
        out: out.to_path_buf(),
        desc: String::new(),
    });
    PANICS.lock().unwrap().clear();
    let (w, s, f) = match replay {
        Some(r) => (Tape::replaying(r.w), Tape::replaying(r.s), Tape::replaying(r.f)),
        None => (
            Tape::generating(seed, 1),
            Tape::generating(seed, 2),
            Tape::generating(seed, 3),
        ),
    };
    let before = fd_snapshot();
    let sim = Sim::new(def.id, w, s, f);
    let cfg = RunCfg {
        prop: def.id,
        tier,
        seed,
        index,
    };
    let ro = (def.run)(&sim, &cfg);
    let stats = sim.finish();
    // ---- epilogue common to all scenarios
    if !stats.pending.is_empty() {
        let v = Violation::new(
            def.id,
            "harness",
            "",
            format!("tasks still alive at end of run: {:?}", stats.pending),
        );
        fatal_with_stats(&v, &stats, true);
    }
    let panics = PANICS.lock().unwrap().clone();
    if let Some((loc, msg)) = panics.first() {
        let in_harness = loc.starts_with("src/") || loc.contains("/verif/sim/");
        let v = Violation::new(
            def.id,
            "panic",
            loc.clone(),
            format!("panic at {loc}: {msg}"),
        );
        fatal_with_stats(&v, &stats, in_harness);
    }
    let after = fd_snapshot();
    if before != after {
        let leaked: Vec<&(i32, String)> = after.iter().filter(|e| !before.contains(e)).collect();
        let closed: Vec<&(i32, String)> = before.iter().filter(|e| !after.contains(e)).collect();
        let kinds: Vec<String> = leaked
            .iter()
            .map(|(_, t)| t.split(':').next().unwrap_or("").to_string())
            .collect();
        let v = Violation::new(
            def.id,
            if leaked.is_empty() { "closed_foreign_fd" } else { "fd_leak" },
            format!("{}+{}", leaked.len(), closed.len()),
            format!("fd table changed over the run: leaked {leaked:?} kinds {kinds:?}; closed {closed:?}"),
        );
        fatal_with_stats(&v, &stats, false);
    }
    OneRun {
        stats,
        desc: ro.desc,
        nontrivial: ro.nontrivial,
        sweep_key: ro.sweep_key,
    }
}

// ------------------------------------------------------------------------------------------
// worker: a contiguous slice of seeds in one process
// ------------------------------------------------------------------------------------------


#[allow(clippy::too_many_arguments)]
fn write_worker_stats(
    out: &Path,
    t0: Instant,
    runs: u64,
    steps: u64,
    choice: u64,
    fired: &BTreeMap<String, u64>,
    probes: &BTreeMap<String, u64>,
    hashes: &[u64],
    ilv: &HashSet<u64>,
    wl: &HashSet<u64>,
    sweeps: &HashSet<u64>,
    samples: &[String],
) {
    let wall = t0.elapsed().as_secs_f64();
    let mut hb = Vec::with_capacity(hashes.len() * 8);
    for h in hashes {
        hb.extend_from_slice(&h.to_le_bytes());
    }
    let _ = std::fs::write(out.with_extension("hashes"), hb);
    let mut sw: Vec<u64> = sweeps.iter().copied().collect();
    sw.sort();
    let mut il: Vec<u64> = ilv.iter().copied().collect();
    il.sort();
    let mut wlv: Vec<u64> = wl.iter().copied().collect();
    wlv.sort();
    let mapj = |m: &BTreeMap<String, u64>| {
        let mut o = J::obj();
        for (k, v) in m {
            o.put(k, J::u(*v));
        }
        o
    };
    let j = J::obj()
        .set("runs", J::u(runs))
        .set("steps", J::u(steps))
        .set("choice_points", J::u(choice))
        .set("wall_s", J::Num(wall))
        .set("fault_fired", mapj(fired))
        .set("probes", mapj(probes))
        .set("sweep_keys", J::arr_u64(&sw))
        .set("ilv", J::arr_u64(&il))
        .set("workloads", J::arr_u64(&wlv))
        .set("samples", J::arr_str(samples));
    let tmp = out.with_extension("tmp");
    if std::fs::write(&tmp, j.to_string()).is_ok() {
        let _ = std::fs::rename(&tmp, out);
    }
}

pub fn worker_main(def: &PropDef, tier: Tier, base: u64, lo: u64, hi: u64, out: &Path) {
    init_process();
    // warm-up run (discarded): lazily created runtime fds must not unbalance the first snapshot
    let _ = run_one(def, tier, base.wrapping_add(lo), lo, out, None);
    let t0 = Instant::now();
    let mut steps = 0u64;
    let mut choice = 0u64;
    let mut fired: BTreeMap<String, u64> = BTreeMap::new();
    let mut probes: BTreeMap<String, u64> = BTreeMap::new();
    let mut hashes: Vec<u64> = Vec::new();
    let mut ilv: HashSet<u64> = HashSet::new();
    let mut wl: HashSet<u64> = HashSet::new();
    let mut sweeps: HashSet<u64> = HashSet::new();
    let mut samples: Vec<String> = Vec::new();
    let mut runs = 0u64;
    for i in lo..hi {
        let seed = base.wrapping_add(i);
        let r = run_one(def, tier, seed, i, out, None);
        runs += 1;
        steps += r.stats.steps;
        choice += r.stats.choice_points;
        for (k, v) in &r.stats.fault_fired {
            *fired.entry(k.to_string()).or_insert(0) += v;
        }
        for (k, v) in &r.stats.probes {
            *probes.entry(k.to_string()).or_insert(0) += v;
        }
        for (k, v) in &r.stats.known_hits {
            *probes.entry(format!("KNOWN-FINDING: {k}")).or_insert(0) += v;
        }
        let mut wh = FNV0;
        for x in &r.stats.w {
            fnv(&mut wh, &x.to_le_bytes());
        }
        let mut fh = FNV0;
        for x in &r.stats.f {
            fnv(&mut fh, &x.to_le_bytes());
        }
        let mut ch = wh;
        fnv(&mut ch, &r.stats.ilv_hash.to_le_bytes());
        fnv(&mut ch, &fh.to_le_bytes());
        let any_fault = r.stats.fault_fired.values().any(|v| *v > 0);
        let nontrivial = r.nontrivial || any_fault || r.stats.choice_points > 0;
        hashes.push((ch & !1) | (nontrivial as u64));
        wl.insert(wh);
        if r.stats.choice_points > 0 {
            ilv.insert(r.stats.ilv_hash);
        }
        if let Some(k) = r.sweep_key {
            sweeps.insert(k);
        }
        if samples.len() < 3 {
            samples.push(format!("seed={seed} index={i}: {}", r.desc));
        }
        if runs % 512 == 0 {
            // partial results survive if this process later dies on a violation or is stopped
            write_worker_stats(out, t0, runs, steps, choice, &fired, &probes, &hashes, &ilv, &wl, &sweeps, &samples);
        }
    }
    write_worker_stats(out, t0, runs, steps, choice, &fired, &probes, &hashes, &ilv, &wl, &sweeps, &samples);
    hard_exit(0);
}

// ------------------------------------------------------------------------------------------
// known findings
// ------------------------------------------------------------------------------------------

pub struct Known {
    pub property: String,
    pub sig_prefix: String,
    pub what: String,
}

pub fn load_known() -> Vec<Known> {
    let p = format!("{VERIF}/known_findings.json");
    let mut v = Vec::new();
    if let Ok(s) = std::fs::read_to_string(&p) {
        if let Ok(j) = J::parse(&s) {
            if let Some(a) = j.get("findings").and_then(|a| a.as_arr()) {
                for f in a {
                    v.push(Known {
                        property: f.get("property").and_then(|x| x.as_str()).unwrap_or("").to_string(),
                        sig_prefix: f
                            .get("signature_prefix")
                            .and_then(|x| x.as_str())
                            .unwrap_or("\u{0}")
                            .to_string(),
                        what: f.get("what").and_then(|x| x.as_str()).unwrap_or("").to_string(),
                    });
                }
            }
        }
    }
    v
}

// ------------------------------------------------------------------------------------------
// parent: check = fork workers, aggregate, minimise on violation, evidence
// ------------------------------------------------------------------------------------------

fn exe() -> PathBuf {
    std::env::current_exe().expect("current_exe")
}

fn run_dir() -> PathBuf {
    let d = PathBuf::from(format!("{VERIF}/target/run/{}", std::process::id()));
    let _ = std::fs::create_dir_all(&d);
    // children put their scratch files (unix sockets) below this directory
    std::env::set_var("VSIM_RUN_DIR", &d);
    d
}

struct Slot {
    child: Child,
    lo: u64,
    hi: u64,
    out: PathBuf,
}

/// Run i of a batch uses seed `run_seed_base(VERIF_SEED) + i`. VERIF_SEED=1 gives 1, 2, 3, ...;
/// every other VERIF_SEED gets its own window, 10^10 apart, so that two base seeds explore
/// disjoint sets of runs instead of the same window shifted by one.
pub fn run_seed_base(verif_seed: u64) -> u64 {
    1u64.wrapping_add(verif_seed.wrapping_sub(1).wrapping_mul(10_000_000_000))
}

fn spawn_worker(def: &PropDef, tier: Tier, base: u64, lo: u64, hi: u64, out: &Path) -> Child {
    let _ = std::fs::remove_file(out);
    let _ = std::fs::remove_file(out.with_extension("viol"));
    let _ = std::fs::remove_file(out.with_extension("err"));
    Command::new(exe())
        .arg("worker")
        .arg(def.id)
        .arg(tier.name())
        .arg(base.to_string())
        .arg(lo.to_string())
        .arg(hi.to_string())
        .arg(out)
        .stdin(Stdio::null())
        .spawn()
        .expect("spawn worker")
}

/// Replays tapes in a fresh process. Returns (signature, log_hash) if it ended in a violation.
fn replay_child(def: &PropDef, tier: Tier, seed: u64, index: u64, w: &[u64], s: &[u64], f: &[u64], tag: &str) -> Option<(String, String, J)> {
    let dir = run_dir();
    let inp = dir.join(format!("cand-{tag}.json"));
    let out = dir.join(format!("cand-{tag}.out"));
    let j = J::obj()
        .set("property", J::s(def.id))
        .set("tier", J::s(tier.name()))
        .set("seed", J::u(seed))
        .set("index", J::u(index))
        .set(
            "tapes",
            J::obj()
                .set("w", J::arr_u64(w))
                .set("s", J::arr_u64(s))
                .set("f", J::arr_u64(f)),
        );
    std::fs::write(&inp, j.to_string()).ok()?;
    let _ = std::fs::remove_file(out.with_extension("viol"));
    let st = Command::new(exe())
        .arg("replay-internal")
        .arg(&inp)
        .arg(&out)
        .stdin(Stdio::null())
        .stderr(Stdio::null())
        .status()
        .ok()?;
    if st.code() == Some(3) {
        let txt = std::fs::read_to_string(out.with_extension("viol")).ok()?;
        let r = J::parse(&txt).ok()?;
        let sig = r.get("signature")?.as_str()?.to_string();
        let lh = r.get("log_hash")?.as_str()?.to_string();
        return Some((sig, lh, r));
    }
    None
}

fn tapes_of(r: &J) -> (Vec<u64>, Vec<u64>, Vec<u64>) {
    let t = |k: &str| -> Vec<u64> {
        r.get("tapes")
            .and_then(|t| t.get(k))
            .and_then(|a| a.as_arr())
            .map(|a| a.iter().filter_map(|x| x.as_u64()).collect())
            .unwrap_or_default()
    };
    (t("w"), t("s"), t("f"))
}

/// Delta debugging over the three tapes; every candidate is replayed in a fresh process and
/// accepted iff it fails with the same signature.
fn minimise(def: &PropDef, tier: Tier, report: &J, budget: Duration) -> (J, u64) {
    let seed = report.get("seed").and_then(|x| x.as_u64()).unwrap_or(0);
    let index = report.get("index").and_then(|x| x.as_u64()).unwrap_or(0);
    let sig = report.get("signature").and_then(|x| x.as_str()).unwrap_or("").to_string();
    let (mut w, mut s, mut f) = tapes_of(report);
    let t0 = Instant::now();
    let mut tried = 0u64;
    let mut best = report.clone();
    let mut attempt = |w: &[u64], s: &[u64], f: &[u64], tried: &mut u64| -> Option<J> {
        *tried += 1;
        match replay_child(def, tier, seed, index, w, s, f, "min") {
            Some((sg, _, r)) if sg == sig => Some(r),
            _ => None,
        }
    };
    // which: 0=f, 1=s, 2=w
    for which in [0usize, 1, 2, 0, 1, 2] {
        // (1) shortest failing prefix (remaining draws default to 0 = plain choice)
        let len = [f.len(), s.len(), w.len()][which];
        let (mut lo, mut hi) = (0usize, len);
        while lo < hi && t0.elapsed() < budget {
            let mid = (lo + hi) / 2;
            let (cw, cs, cf) = cut(&w, &s, &f, which, mid);
            if let Some(r) = attempt(&cw, &cs, &cf, &mut tried) {
                hi = mid;
                best = r;
                w = cw;
                s = cs;
                f = cf;
            } else {
                lo = mid + 1;
            }
        }
        // (2) zero chunks
        let mut chunk = ([f.len(), s.len(), w.len()][which] / 2).max(1);
        loop {
            let len = [f.len(), s.len(), w.len()][which];
            let mut i = 0;
            while i < len && t0.elapsed() < budget {
                let (mut cw, mut cs, mut cf) = (w.clone(), s.clone(), f.clone());
                let tape: &mut Vec<u64> = match which {
                    0 => &mut cf,
                    1 => &mut cs,
                    _ => &mut cw,
                };
                let end = (i + chunk).min(len);
                if tape[i..end].iter().all(|x| *x == 0) {
                    i = end;
                    continue;
                }
                for x in &mut tape[i..end] {
                    *x = 0;
                }
                if let Some(r) = attempt(&cw, &cs, &cf, &mut tried) {
                    best = r;
                    w = cw;
                    s = cs;
                    f = cf;
                }
                i = end;
            }
            if chunk == 1 || t0.elapsed() >= budget {
                break;
            }
            chunk /= 2;
        }
        if t0.elapsed() >= budget {
            break;
        }
    }
    (best, tried)
}

fn cut(w: &[u64], s: &[u64], f: &[u64], which: usize, n: usize) -> (Vec<u64>, Vec<u64>, Vec<u64>) {
    let (mut cw, mut cs, mut cf) = (w.to_vec(), s.to_vec(), f.to_vec());
    match which {
        0 => cf.truncate(n),
        1 => cs.truncate(n),
        _ => cw.truncate(n),
    }
    (cw, cs, cf)
}

pub struct CheckOpts {
    pub tier: Tier,
    pub seed: u64,
    pub jobs: u64,
    pub runs: Option<u64>,
}

pub fn check_main(def: &PropDef, o: &CheckOpts) -> i32 {
    let t0 = Instant::now();
    let total = o.runs.unwrap_or(match o.tier {
        Tier::Quick => def.quick_runs,
        Tier::Thorough => def.thorough_runs,
    });
    let jobs = o.jobs.max(1).min(total.max(1));
    let dir = run_dir();
    let known = load_known();
    println!(
        "vsim check property={} tier={} VERIF_SEED={} runs={} jobs={}",
        def.id,
        o.tier.name(),
        o.seed,
        total,
        jobs
    );
    let mut slots: Vec<Slot> = Vec::new();
    let per = total.div_ceil(jobs);
    for j in 0..jobs {
        let lo = j * per;
        let hi = ((j + 1) * per).min(total);
        if lo >= hi {
            continue;
        }
        let out = dir.join(format!("w{j}-{lo}.json"));
        let child = spawn_worker(def, o.tier, run_seed_base(o.seed), lo, hi, &out);
        slots.push(Slot { child, lo, hi, out });
    }
    let mut agg_runs = 0u64;
    let mut agg_steps = 0u64;
    let mut agg_choice = 0u64;
    let mut fired: BTreeMap<String, u64> = BTreeMap::new();
    let mut probes: BTreeMap<String, u64> = BTreeMap::new();
    let mut hashes: HashSet<u64> = HashSet::new();
    let mut nontriv: HashSet<u64> = HashSet::new();
    let mut ilv: HashSet<u64> = HashSet::new();
    let mut wl: HashSet<u64> = HashSet::new();
    let mut sweeps: HashSet<u64> = HashSet::new();
    let mut samples: Vec<J> = Vec::new();
    let mut known_hits: BTreeMap<String, u64> = BTreeMap::new();
    let mut violation: Option<J> = None;
    let mut harness_err: Option<String> = None;
    let mut skipped_after_known = 0u64;

    let mut pending: Vec<Slot> = slots;
    while let Some(mut sl) = pending.pop() {
        let st = sl.child.wait().expect("wait worker");
        let code = st.code().unwrap_or(-1);
        // workers flush partial statistics periodically, so results of a worker that died on a
        // violation or was stopped are counted up to its last flush
        {
            if let Ok(txt) = std::fs::read_to_string(&sl.out) {
                if let Ok(j) = J::parse(&txt) {
                    agg_runs += j.get("runs").and_then(|x| x.as_u64()).unwrap_or(0);
                    agg_steps += j.get("steps").and_then(|x| x.as_u64()).unwrap_or(0);
                    agg_choice += j.get("choice_points").and_then(|x| x.as_u64()).unwrap_or(0);
                    for (name, tgt) in [("fault_fired", &mut fired), ("probes", &mut probes)] {
                        if let Some(J::Obj(m)) = j.get(name) {
                            for (k, v) in m {
                                *tgt.entry(k.clone()).or_insert(0) += v.as_u64().unwrap_or(0);
                            }
                        }
                    }
                    for (name, tgt) in [("ilv", &mut ilv), ("workloads", &mut wl), ("sweep_keys", &mut sweeps)] {
                        if let Some(a) = j.get(name).and_then(|a| a.as_arr()) {
                            for x in a {
                                tgt.insert(x.as_u64().unwrap_or(0));
                            }
                        }
                    }
                    if let Some(a) = j.get("samples").and_then(|a| a.as_arr()) {
                        for x in a {
                            if samples.len() < 6 {
                                samples.push(x.clone());
                            }
                        }
                    }
                }
            }
            if let Ok(b) = std::fs::read(sl.out.with_extension("hashes")) {
                for c in b.chunks_exact(8) {
                    let h = u64::from_le_bytes(c.try_into().unwrap());
                    hashes.insert(h & !1);
                    if h & 1 == 1 {
                        nontriv.insert(h & !1);
                    }
                }
            }
        }
        if code == 0 {
        } else if code == 3 {
            let txt = std::fs::read_to_string(sl.out.with_extension("viol")).unwrap_or_default();
            match J::parse(&txt) {
                Ok(r) => {
                    let sig = r.get("signature").and_then(|x| x.as_str()).unwrap_or("").to_string();
                    let idx = r.get("index").and_then(|x| x.as_u64()).unwrap_or(sl.hi);
                    if let Some(k) = known.iter().find(|k| sig.starts_with(&k.sig_prefix)) {
                        *known_hits
                            .entry(format!("property={} {}", k.property, k.what))
                            .or_insert(0) += 1;
                        // carry on with the rest of this slice in a fresh process
                        skipped_after_known += 1;
                        if idx + 1 < sl.hi {
                            let out = dir.join(format!("w-{}-{}.json", sl.lo, idx + 1));
                            let child = spawn_worker(def, o.tier, run_seed_base(o.seed), idx + 1, sl.hi, &out);
                            pending.push(Slot {
                                child,
                                lo: idx + 1,
                                hi: sl.hi,
                                out,
                            });
                        }
                    } else if violation.is_none() {
                        violation = Some(r);
                        for p in pending.iter_mut() {
                            let _ = p.child.kill();
                        }
                    }
                }
                Err(e) => harness_err = Some(format!("unreadable violation report: {e}")),
            }
        } else if violation.is_none() {
            let txt = std::fs::read_to_string(sl.out.with_extension("err")).unwrap_or_default();
            harness_err = Some(format!(
                "worker for [{},{}) exited with {code}: {}",
                sl.lo,
                sl.hi,
                txt.chars().take(3000).collect::<String>()
            ));
        }
    }

    if let Some(r) = &violation {
        // the failing case itself is always part of the evidence
        samples.insert(
            0,
            J::s(&format!(
                "VIOLATING seed={} index={}: {}",
                r.get("seed").and_then(|x| x.as_u64()).unwrap_or(0),
                r.get("index").and_then(|x| x.as_u64()).unwrap_or(0),
                r.get("workload").and_then(|x| x.as_str()).unwrap_or("")
            )),
        );
        agg_runs += 1;
    }
    let kf: Vec<String> = probes.keys().filter(|k| k.starts_with("KNOWN-FINDING: ")).cloned().collect();
    for k in kf {
        let n = probes.remove(&k).unwrap_or(0);
        *known_hits.entry(k.trim_start_matches("KNOWN-FINDING: ").to_string()).or_insert(0) += n;
    }
    let mut exit = 0;
    let mut viol_count = 0u64;
    let mut replay_path = String::new();
    if let Some(r) = &violation {
        viol_count = 1;
        let prop = r.get("property").and_then(|x| x.as_str()).unwrap_or(def.id).to_string();
        let seed = r.get("seed").and_then(|x| x.as_u64()).unwrap_or(0);
        println!(
            "violation at seed {seed}: {} -- {}",
            r.get("signature").and_then(|x| x.as_str()).unwrap_or(""),
            r.get("message").and_then(|x| x.as_str()).unwrap_or("")
        );
        let budget = Duration::from_secs(if o.tier == Tier::Quick { 25 } else { 90 });
        let (best, tried) = minimise(def, o.tier, r, budget);
        let (w, s, f) = tapes_of(&best);
        // determinism of the replay: two fresh processes, same signature and same log hash
        let a = replay_child(def, o.tier, seed, best.get("index").and_then(|x| x.as_u64()).unwrap_or(0), &w, &s, &f, "v1");
        let b = replay_child(def, o.tier, seed, best.get("index").and_then(|x| x.as_u64()).unwrap_or(0), &w, &s, &f, "v2");
        let exact = match (&a, &b) {
            (Some(x), Some(y)) => x.0 == y.0 && x.1 == y.1,
            _ => false,
        };
        let mut best = best;
        best.put("minimised", J::Bool(true));
        best.put("minimiser_candidates", J::u(tried));
        best.put("replay_exact", J::Bool(exact));
        let (ow, os, of) = tapes_of(r);
        best.put(
            "original_tape_lengths",
            J::arr_u64(&[ow.len() as u64, os.len() as u64, of.len() as u64]),
        );
        let path = format!("{VERIF}/replays/{prop}-{seed}.json");
        let _ = std::fs::create_dir_all(format!("{VERIF}/replays"));
        let _ = std::fs::write(&path, best.pretty());
        replay_path = path.clone();
        if !exact {
            println!("HARNESS-ERROR replay of minimised tapes is not exact (a={:?} b={:?})", a.as_ref().map(|x| (&x.0, &x.1)), b.as_ref().map(|x| (&x.0, &x.1)));
            exit = 2;
        } else {
            println!(
                "minimised: tapes w/s/f {}/{}/{} -> {}/{}/{} in {tried} candidate replays; replay is exact",
                ow.len(),
                os.len(),
                of.len(),
                w.len(),
                s.len(),
                f.len()
            );
            println!("VIOLATION property={prop} replay={path}");
            exit = 1;
        }
    } else if let Some(e) = &harness_err {
        println!("HARNESS-ERROR {e}");
        exit = 2;
    }
    for (k, n) in &known_hits {
        println!("KNOWN-FINDING: {k} (seen {n}x in this batch)");
    }
    let wall = t0.elapsed().as_secs_f64();

    // ---- evidence
    let mapj = |m: &BTreeMap<String, u64>| {
        let mut o = J::obj();
        for (k, v) in m {
            o.put(k, J::u(*v));
        }
        o
    };
    let sweep_total = (def.sweep_size)(o.tier);
    let mut cov = J::obj()
        .set("evaluations", J::u(agg_runs))
        .set("distinct_nontrivial", J::u(nontriv.len() as u64))
        .set("distinct_cases", J::u(hashes.len() as u64))
        .set("rule", J::s(def.rule))
        .set("samples", J::Arr(samples))
        .set("simulated_runs", J::u(agg_runs))
        .set("runs_per_hour", J::u(if wall > 0.0 { (agg_runs as f64 / wall * 3600.0) as u64 } else { 0 }))
        .set("scheduling_steps", J::u(agg_steps))
        .set("simulated_time", J::s("logical: the system under test has no clock or timer; time is the scheduler step count (scheduling_steps)"))
        .set("schedule_choice_points", J::u(agg_choice))
        .set("distinct_interleavings", J::u(ilv.len() as u64))
        .set("distinct_interleavings_measure", J::s("distinct hashes of the (task role, label) sequence chosen at steps with >= 2 runnable tasks"))
        .set("distinct_workloads", J::u(wl.len() as u64))
        .set("faults_fired", mapj(&fired))
        .set("probes", mapj(&probes))
        .set("known_finding_hits", mapj(&known_hits))
        .set("runs_cut_short_by_known_findings", J::u(skipped_after_known))
        .set("real_components", J::arr_str(def.real))
        .set("stub_components", J::arr_str(def.stubs));
    if sweep_total > 0 {
        cov.put("sweep_space", J::u(sweep_total));
        cov.put("sweep_covered", J::u(sweeps.len() as u64));
        cov.put("exhaustive", J::Bool(sweeps.len() as u64 >= sweep_total));
        cov.put("exhaustive_scope", J::s(def.sweep_desc));
    }
    let ev = J::obj()
        .set("property_id", J::s(def.id))
        .set("tier", J::s(o.tier.name()))
        .set("seed", J::u(o.seed))
        .set("level", J::s(def.level))
        .set("coverage", cov)
        .set("assumptions", J::arr_str(def.assumptions))
        .set("wall_s", J::Num((wall * 100.0).round() / 100.0))
        .set("violations", J::u(viol_count))
        .set("replay", J::s(&replay_path));
    // sensitivity runs against a deliberately broken tree (tools/try_seeded.sh) keep their
    // evidence apart from that of the real tree
    let evdir = std::env::var("VSIM_EVIDENCE_DIR").unwrap_or_else(|_| format!("{VERIF}/evidence"));
    let _ = std::fs::create_dir_all(&evdir);
    let evp = format!("{evdir}/{}.json", def.id);
    if let Err(e) = std::fs::write(&evp, ev.pretty()) {
        println!("HARNESS-ERROR cannot write evidence {evp}: {e}");
        exit = 2;
    }
    let _ = std::fs::remove_dir_all(&dir);
    println!(
        "property={} runs={} steps={} distinct_nontrivial={} interleavings={} faults={:?} wall={:.1}s exit={}",
        def.id,
        agg_runs,
        agg_steps,
        nontriv.len(),
        ilv.len(),
        fired,
        wall,
        exit
    );
    let _ = std::io::stdout().flush();
    exit
}

/// `vsim replay <file>`: re-execute a replay file in this process.
pub fn replay_main(path: &str, out: Option<&str>) -> i32 {
    let txt = match std::fs::read_to_string(path) {
        Ok(t) => t,
        Err(e) => {
            eprintln!("cannot read {path}: {e}");
            return 2;
        }
    };
    let j = match J::parse(&txt) {
        Ok(j) => j,
        Err(e) => {
            eprintln!("cannot parse {path}: {e}");
            return 2;
        }
    };
    let prop = j
        .get("checked_property")
        .or_else(|| j.get("property"))
        .and_then(|x| x.as_str())
        .unwrap_or("");
    let def = match scen::find(prop) {
        Some(d) => d,
        None => {
            eprintln!("unknown property {prop}");
            return 2;
        }
    };
    let tier = Tier::parse(j.get("tier").and_then(|x| x.as_str()).unwrap_or("quick"));
    let seed = j.get("seed").and_then(|x| x.as_u64()).unwrap_or(0);
    let index = j.get("index").and_then(|x| x.as_u64()).unwrap_or(0);
    let (w, s, f) = tapes_of(&j);
    let internal = out.is_some();
    let outp = match out {
        Some(o) => PathBuf::from(o),
        None => run_dir().join("replay.out"),
    };
    if internal {
        init_process();
        let _ = run_one(def, tier, seed, index, &outp, Some(Replay { w, s, f }));
        return 0;
    }
    // user-facing: run in a child so that a violation (process exit) can be reported nicely
    let r = replay_child(def, tier, seed, index, &w, &s, &f, "user");
    let _ = std::fs::remove_dir_all(run_dir());
    match r {
        Some((sig, lh, rep)) => {
            println!("replay: violation reproduced: {sig}");
            println!("  {}", rep.get("message").and_then(|x| x.as_str()).unwrap_or(""));
            if let Some(t) = rep.get("event_log_tail").and_then(|a| a.as_arr()) {
                for l in t.iter().rev().take(25).rev() {
                    println!("    {}", l.as_str().unwrap_or(""));
                }
            }
            let want = j.get("log_hash").and_then(|x| x.as_str()).unwrap_or("");
            if !want.is_empty() {
                println!(
                    "  event-log hash {} (recorded {}) -> {}",
                    lh,
                    want,
                    if lh == want { "exact replay" } else { "DIFFERENT EXECUTION" }
                );
            }
            let p = rep.get("property").and_then(|x| x.as_str()).unwrap_or(prop);
            println!("VIOLATION property={p} replay={path}");
            1
        }
        None => {
            println!("replay: no violation (the recorded failure does not reproduce on this tree)");
            0
        }
    }
}

// ------------------------------------------------------------------------------------------
// determinism self-test: every seed twice, in different processes, at two worker counts
// ------------------------------------------------------------------------------------------

pub fn trace_main(def: &PropDef, tier: Tier, base: u64, lo: u64, hi: u64, out: &Path) {
    init_process();
    let _ = run_one(def, tier, base.wrapping_add(lo), lo, out, None);
    let mut s = String::new();
    for i in lo..hi {
        let r = run_one(def, tier, base.wrapping_add(i), i, out, None);
        s.push_str(&format!("{i} {:016x} {:016x} {}\n", r.stats.log_hash, r.stats.ilv_hash, r.stats.steps));
    }
    std::fs::write(out, s).expect("write trace");
    hard_exit(0);
}

fn trace_batch(def: &PropDef, tier: Tier, base: u64, n: u64, jobs: u64, tag: &str) -> Result<BTreeMap<u64, String>, String> {
    let dir = run_dir();
    let per = n.div_ceil(jobs);
    let mut kids = Vec::new();
    for j in 0..jobs {
        let lo = j * per;
        let hi = ((j + 1) * per).min(n);
        if lo >= hi {
            continue;
        }
        let out = dir.join(format!("trace-{tag}-{j}.txt"));
        let c = Command::new(exe())
            .arg("trace")
            .arg(def.id)
            .arg(tier.name())
            .arg(base.to_string())
            .arg(lo.to_string())
            .arg(hi.to_string())
            .arg(&out)
            .stdin(Stdio::null())
            .spawn()
            .map_err(|e| e.to_string())?;
        kids.push((c, out));
    }
    let mut m = BTreeMap::new();
    for (mut c, out) in kids {
        let st = c.wait().map_err(|e| e.to_string())?;
        if st.code() != Some(0) {
            return Err(format!("trace worker exited with {:?} (a violation or harness error on the unchanged tree?)", st.code()));
        }
        let txt = std::fs::read_to_string(&out).map_err(|e| e.to_string())?;
        for l in txt.lines() {
            let mut it = l.splitn(2, ' ');
            let i: u64 = it.next().unwrap().parse().unwrap();
            m.insert(i, it.next().unwrap_or("").to_string());
        }
    }
    Ok(m)
}

pub fn determinism_main(def: &PropDef, tier: Tier, base: u64, n: u64) -> i32 {
    let a = trace_batch(def, tier, base, n, 1, "a");
    let b = trace_batch(def, tier, base, n, 16, "b");
    let c = trace_batch(def, tier, base, n, 5, "c");
    let _ = std::fs::remove_dir_all(run_dir());
    match (a, b, c) {
        (Ok(a), Ok(b), Ok(c)) => {
            let mut bad = 0;
            for (i, x) in &a {
                if b.get(i) != Some(x) || c.get(i) != Some(x) {
                    if bad < 10 {
                        println!("DIVERGENCE index {i}: jobs1={x} jobs16={:?} jobs5={:?}", b.get(i), c.get(i));
                    }
                    bad += 1;
                }
            }
            let distinct: HashSet<&String> = a.values().collect();
            println!(
                "determinism {}: {} seeds x 3 executions (1, 16 and 5 worker processes), {} divergences, {} distinct event logs",
                def.id,
                a.len(),
                bad,
                distinct.len()
            );
            if bad == 0 {
                0
            } else {
                2
            }
        }
        (a, b, c) => {
            println!("HARNESS-ERROR determinism: {:?} {:?} {:?}", a.err(), b.err(), c.err());
            2
        }
    }
}
