//! File-descriptor utilities and the raw peer's socket I/O (plain libc, independent of the
//! vmm-sys-util wrappers used by the code under test). Every blocking call is preceded by a
//! scheduler sync point.

use std::fs::File;
use std::os::unix::io::{AsRawFd, FromRawFd, RawFd};
use std::os::unix::net::UnixStream;

use crate::sched;

pub fn memfd(name: &str, size: u64) -> File {
    let c = std::ffi::CString::new(name).unwrap();
    // SAFETY: valid C string.
    let fd = unsafe { libc::memfd_create(c.as_ptr(), libc::MFD_CLOEXEC) };
    assert!(fd >= 0, "memfd_create");
    // SAFETY: we own fd.
    let f = unsafe { File::from_raw_fd(fd) };
    f.set_len(size).expect("ftruncate");
    f
}

pub fn eventfd(nonblock: bool) -> File {
    let fl = libc::EFD_CLOEXEC | if nonblock { libc::EFD_NONBLOCK } else { 0 };
    // SAFETY: plain syscall.
    let fd = unsafe { libc::eventfd(0, fl) };
    assert!(fd >= 0, "eventfd");
    // SAFETY: we own fd.
    unsafe { File::from_raw_fd(fd) }
}

pub fn eventfd_write(fd: RawFd, v: u64) -> bool {
    let b = v.to_ne_bytes();
    // SAFETY: valid buffer.
    let r = unsafe { libc::write(fd, b.as_ptr() as *const libc::c_void, 8) };
    r == 8
}

/// Non-blocking read of an eventfd counter (None when it is zero / would block).
pub fn eventfd_peek(fd: RawFd) -> Option<u64> {
    if !poll_in(fd) {
        return None;
    }
    let mut b = [0u8; 8];
    // SAFETY: valid buffer; readable so it cannot block.
    let r = unsafe { libc::read(fd, b.as_mut_ptr() as *mut libc::c_void, 8) };
    if r == 8 {
        Some(u64::from_ne_bytes(b))
    } else {
        None
    }
}

pub fn poll_in(fd: RawFd) -> bool {
    let mut p = libc::pollfd {
        fd,
        events: libc::POLLIN,
        revents: 0,
    };
    // SAFETY: valid pollfd.
    let r = unsafe { libc::poll(&mut p, 1, 0) };
    r > 0 && p.revents & libc::POLLIN != 0
}

pub fn fd_valid(fd: RawFd) -> bool {
    // SAFETY: plain syscall.
    unsafe { libc::fcntl(fd, libc::F_GETFD) != -1 }
}

/// Bytes queued for reading on a socket (FIONREAD).
pub fn fionread(fd: RawFd) -> usize {
    let mut n: libc::c_int = 0;
    // SAFETY: valid out pointer.
    let r = unsafe { libc::ioctl(fd, libc::FIONREAD, &mut n) };
    if r < 0 {
        0
    } else {
        n as usize
    }
}

/// Do two descriptors refer to the same open file description? File status flags live in the
/// open file description, so toggling O_APPEND through one descriptor is visible through the
/// other iff they share it. Works for every descriptor kind (memfd, eventfd, socket).
pub fn same_open_file(a: RawFd, b: RawFd) -> bool {
    if a == b {
        return true;
    }
    // SAFETY: plain fcntl calls on caller-supplied fds.
    unsafe {
        let fa = libc::fcntl(a, libc::F_GETFL);
        let fb = libc::fcntl(b, libc::F_GETFL);
        if fa < 0 || fb < 0 {
            return false;
        }
        if (fa ^ fb) & libc::O_NONBLOCK != 0 {
            return false;
        }
        libc::fcntl(a, libc::F_SETFL, fa ^ libc::O_NONBLOCK);
        let fb2 = libc::fcntl(b, libc::F_GETFL);
        libc::fcntl(a, libc::F_SETFL, fa);
        (fb2 ^ fb) & libc::O_NONBLOCK != 0
    }
}

pub fn sockpair() -> (UnixStream, UnixStream) {
    UnixStream::pair().expect("socketpair")
}

const CMSG_MAX_FDS: usize = 64;

/// sendmsg with SCM_RIGHTS; returns bytes written. Sync point first.
pub fn raw_send(sock: RawFd, data: &[u8], fds: &[RawFd], label: &'static str) -> Result<usize, i32> {
    sched::wait_fd(sock, true, label);
    let mut iov = libc::iovec {
        iov_base: data.as_ptr() as *mut libc::c_void,
        iov_len: data.len(),
    };
    let space = unsafe { libc::CMSG_SPACE((fds.len() * 4) as u32) } as usize;
    let mut cbuf = vec![0u64; space.div_ceil(8) + 1];
    // SAFETY: msghdr fully initialised below; buffers outlive the call.
    unsafe {
        let mut msg: libc::msghdr = std::mem::zeroed();
        msg.msg_iov = &mut iov;
        msg.msg_iovlen = 1;
        if !fds.is_empty() {
            msg.msg_control = cbuf.as_mut_ptr() as *mut libc::c_void;
            msg.msg_controllen = space as _;
            let c = libc::CMSG_FIRSTHDR(&msg);
            (*c).cmsg_level = libc::SOL_SOCKET;
            (*c).cmsg_type = libc::SCM_RIGHTS;
            (*c).cmsg_len = libc::CMSG_LEN((fds.len() * 4) as u32) as _;
            std::ptr::copy_nonoverlapping(fds.as_ptr(), libc::CMSG_DATA(c) as *mut RawFd, fds.len());
        }
        let r = libc::sendmsg(sock, &msg, libc::MSG_NOSIGNAL);
        if r < 0 {
            Err(*libc::__errno_location())
        } else {
            Ok(r as usize)
        }
    }
}

/// recvmsg of at most `max` bytes; returns (bytes, received fds as Files, ctrunc flag).
pub fn raw_recv(sock: RawFd, max: usize, label: &'static str) -> Result<(Vec<u8>, Vec<File>, bool), i32> {
    sched::wait_fd(sock, false, label);
    let mut buf = vec![0u8; max];
    let mut iov = libc::iovec {
        iov_base: buf.as_mut_ptr() as *mut libc::c_void,
        iov_len: max,
    };
    let space = unsafe { libc::CMSG_SPACE((CMSG_MAX_FDS * 4) as u32) } as usize;
    let mut cbuf = vec![0u64; space.div_ceil(8) + 1];
    // SAFETY: msghdr fully initialised; buffers outlive the call.
    unsafe {
        let mut msg: libc::msghdr = std::mem::zeroed();
        msg.msg_iov = &mut iov;
        msg.msg_iovlen = 1;
        msg.msg_control = cbuf.as_mut_ptr() as *mut libc::c_void;
        msg.msg_controllen = space as _;
        let r = libc::recvmsg(sock, &mut msg, libc::MSG_CMSG_CLOEXEC);
        if r < 0 {
            return Err(*libc::__errno_location());
        }
        buf.truncate(r as usize);
        let mut files = Vec::new();
        let mut c = libc::CMSG_FIRSTHDR(&msg);
        while !c.is_null() {
            if (*c).cmsg_level == libc::SOL_SOCKET && (*c).cmsg_type == libc::SCM_RIGHTS {
                let n = ((*c).cmsg_len as usize - libc::CMSG_LEN(0) as usize) / 4;
                let p = libc::CMSG_DATA(c) as *const RawFd;
                for i in 0..n {
                    files.push(File::from_raw_fd(std::ptr::read_unaligned(p.add(i))));
                }
            }
            c = libc::CMSG_NXTHDR(&msg, c);
        }
        Ok((buf, files, msg.msg_flags & libc::MSG_CTRUNC != 0))
    }
}

/// Receive exactly `n` bytes (or fewer at EOF). Descriptors are reported with the index of the
/// byte they arrived with.
pub fn raw_recv_exact(sock: RawFd, n: usize, label: &'static str) -> Result<(Vec<u8>, Vec<(usize, File)>), i32> {
    let mut out = Vec::new();
    let mut files = Vec::new();
    while out.len() < n {
        let (b, f, _) = raw_recv(sock, n - out.len(), label)?;
        if b.is_empty() {
            break;
        }
        for x in f {
            files.push((out.len(), x));
        }
        out.extend_from_slice(&b);
    }
    Ok((out, files))
}

/// Send `data` in the given segments (cut points are byte offsets, strictly increasing, inside
/// the data); descriptors ride on the segment `fd_seg`. Yields between segments.
pub fn raw_send_segmented(sock: RawFd, data: &[u8], cuts: &[usize], fds: &[RawFd], fd_seg: usize) -> Result<(), i32> {
    let mut start = 0;
    let mut seg = 0;
    let mut bounds: Vec<usize> = cuts.iter().copied().filter(|c| *c > 0 && *c < data.len()).collect();
    bounds.sort();
    bounds.dedup();
    bounds.push(data.len());
    for end in bounds {
        let mut off = start;
        let mut first = true;
        while off < end {
            let f: &[RawFd] = if seg == fd_seg && first { fds } else { &[] };
            let n = raw_send(sock, &data[off..end], f, "peer.send")?;
            first = false;
            off += n;
        }
        start = end;
        seg += 1;
        sched::point("peer.between_segments");
    }
    Ok(())
}

pub fn shutdown_wr(sock: &UnixStream) {
    sched::point("peer.shutdown_wr");
    let _ = sock.shutdown(std::net::Shutdown::Write);
}

pub fn raw_fd_of<T: AsRawFd>(t: &T) -> RawFd {
    t.as_raw_fd()
}
