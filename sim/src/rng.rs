//! PRNG (SplitMix64 -> xoshiro256**) and decision tapes. Written out here so that no
//! dependency upgrade can change the stream belonging to a seed.

#[derive(Clone)]
pub struct Rng {
    s: [u64; 4],
}

fn splitmix(x: &mut u64) -> u64 {
    *x = x.wrapping_add(0x9E37_79B9_7F4A_7C15);
    let mut z = *x;
    z = (z ^ (z >> 30)).wrapping_mul(0xBF58_476D_1CE4_E5B9);
    z = (z ^ (z >> 27)).wrapping_mul(0x94D0_49BB_1331_11EB);
    z ^ (z >> 31)
}

impl Rng {
    pub fn new(seed: u64, stream: u64) -> Self {
        let mut x = seed ^ stream.wrapping_mul(0xA076_1D64_78BD_642F);
        let s = [
            splitmix(&mut x),
            splitmix(&mut x),
            splitmix(&mut x),
            splitmix(&mut x),
        ];
        Rng { s }
    }
    pub fn next(&mut self) -> u64 {
        let r = self.s[1].wrapping_mul(5).rotate_left(7).wrapping_mul(9);
        let t = self.s[1] << 17;
        self.s[2] ^= self.s[0];
        self.s[3] ^= self.s[1];
        self.s[1] ^= self.s[2];
        self.s[0] ^= self.s[3];
        self.s[2] ^= t;
        self.s[3] = self.s[3].rotate_left(45);
        r
    }
}

/// A tape of decisions. Generating: values come from the PRNG and are recorded.
/// Replaying: values come from the recorded list (`value % bound`), `0` once exhausted.
/// `0` is always the plain choice (first runnable task, no fault, smallest value).
pub struct Tape {
    rng: Option<Rng>,
    replay: Vec<u64>,
    pos: usize,
    pub rec: Vec<u64>,
}

impl Tape {
    pub fn generating(seed: u64, stream: u64) -> Self {
        Tape {
            rng: Some(Rng::new(seed, stream)),
            replay: Vec::new(),
            pos: 0,
            rec: Vec::new(),
        }
    }
    pub fn replaying(vals: Vec<u64>) -> Self {
        Tape {
            rng: None,
            replay: vals,
            pos: 0,
            rec: Vec::new(),
        }
    }
    /// Uniform-ish draw in `0..bound` (`bound >= 1`).
    pub fn draw(&mut self, bound: u64) -> u64 {
        let bound = bound.max(1);
        let v = match &mut self.rng {
            Some(r) => r.next() % bound,
            None => {
                let v = self.replay.get(self.pos).copied().unwrap_or(0) % bound;
                self.pos += 1;
                v
            }
        };
        self.rec.push(v);
        v
    }
    /// Raw 64-bit value (recorded verbatim).
    pub fn raw(&mut self) -> u64 {
        let v = match &mut self.rng {
            Some(r) => r.next(),
            None => {
                let v = self.replay.get(self.pos).copied().unwrap_or(0);
                self.pos += 1;
                v
            }
        };
        self.rec.push(v);
        v
    }
    pub fn chance(&mut self, num: u64, den: u64) -> bool {
        // `0` (the replay default) must mean "no": the event happens for the top `num` values.
        self.draw(den) >= den - num.min(den)
    }
    pub fn pick<'a, T>(&mut self, xs: &'a [T]) -> &'a T {
        &xs[self.draw(xs.len() as u64) as usize]
    }
    pub fn range(&mut self, lo: u64, hi_incl: u64) -> u64 {
        lo + self.draw(hi_incl - lo + 1)
    }
    /// Boundary-biased 64-bit value.
    pub fn lattice64(&mut self) -> u64 {
        const L: [u64; 22] = [
            0,
            1,
            2,
            0xf,
            0x10,
            0xfff,
            0x1000,
            0x1001,
            0xffff,
            0x1_0000,
            0x7fff_ffff,
            0x8000_0000,
            0xffff_ffff,
            0x1_0000_0000,
            0x7fff_ffff_ffff_ffff,
            0x8000_0000_0000_0000,
            0xffff_ffff_ffff_f000,
            0xffff_ffff_ffff_fffe,
            0xffff_ffff_ffff_ffff,
            0x0123_4567_89ab_cdef,
            0x100,
            0x101,
        ];
        match self.draw(3) {
            0 => L[self.draw(L.len() as u64) as usize],
            1 => {
                let k = self.draw(64);
                let d = self.draw(3);
                (1u64 << k).wrapping_add(d).wrapping_sub(1)
            }
            _ => self.raw(),
        }
    }
    pub fn lattice32(&mut self) -> u32 {
        const L: [u32; 14] = [
            0, 1, 2, 0xff, 0x100, 0xfff, 0x1000, 0x1001, 0xffff, 0x1_0000, 0x7fff_ffff,
            0x8000_0000, 0xffff_fffe, 0xffff_ffff,
        ];
        match self.draw(3) {
            0 => L[self.draw(L.len() as u64) as usize],
            1 => {
                let k = self.draw(32);
                let d = self.draw(3) as u32;
                (1u32 << k).wrapping_add(d).wrapping_sub(1)
            }
            _ => self.raw() as u32,
        }
    }
    pub fn bytes(&mut self, n: usize) -> Vec<u8> {
        // one tape entry, expanded by a private stream: keeps tapes short for the shrinker
        let mut r = Rng::new(self.raw(), 0x62797465);
        let mut v = Vec::with_capacity(n);
        let mut i = 0;
        while i < n {
            let x = r.next();
            for b in x.to_le_bytes() {
                if i < n {
                    v.push(b);
                    i += 1;
                }
            }
        }
        v
    }
}

pub fn fnv(h: &mut u64, bytes: &[u8]) {
    for b in bytes {
        *h ^= *b as u64;
        *h = h.wrapping_mul(0x0000_0100_0000_01b3);
    }
}
pub const FNV0: u64 = 0xcbf2_9ce4_8422_2325;
