//! Token-passing scheduler over real OS threads, plus the I/O fault seam.
//!
//! Exactly one task holds the token; all others are parked. A task gives the token back only
//! at a sync point (`point`, `wait_fd`, `wait_until`, `before_join`, `settle`), where the
//! *yielding thread itself* evaluates which tasks are runnable and draws the next one from the
//! schedule tape. Kernel objects (sockets, eventfds, epoll) are real; their state is a
//! deterministic function of the order of system calls, which the token serialises.

use std::cell::RefCell;
use std::collections::{BTreeMap, HashMap};
use std::os::unix::io::{AsRawFd, RawFd};
use std::os::unix::net::UnixStream;
use std::sync::atomic::{AtomicU64, AtomicUsize, Ordering};
use std::sync::{Arc, Condvar, Mutex, MutexGuard};
use std::thread::{self, Thread, ThreadId};

use libc::iovec;
use vmm_sys_util::sock_ctrl_msg::ScmSocket;

use crate::rng::{fnv, Tape, FNV0};

pub const NONE: usize = usize::MAX;

/// Bumped on every scheduling step and run boundary; read by the watchdog.
pub static PROGRESS: AtomicU64 = AtomicU64::new(0);

#[derive(Clone, Debug)]
pub struct Violation {
    pub prop: String,
    pub clause: String,
    /// discriminating keys; `prop|clause|keys` is the signature
    pub keys: String,
    pub msg: String,
}

impl Violation {
    pub fn new(prop: &str, clause: &str, keys: impl Into<String>, msg: impl Into<String>) -> Self {
        Violation {
            prop: prop.to_string(),
            clause: clause.to_string(),
            keys: keys.into(),
            msg: msg.into(),
        }
    }
    pub fn signature(&self) -> String {
        format!("{}|{}|{}", self.prop, self.clause, self.keys)
    }
}

#[derive(Clone, Copy, PartialEq, Debug)]
pub enum Policy {
    Random,
    Pct,
    Sticky,
}

enum Cond {
    Always,
    Fd { fd: RawFd, write: bool },
    Probe(*const (dyn Fn() -> bool + 'static)),
    Joined(usize),
    Quiescent,
}
// SAFETY: the probe pointer is only dereferenced while its owner is parked inside the hook
// that created it, and only by the thread holding the scheduler lock.
unsafe impl Send for Cond {}

enum TState {
    Running,
    Waiting(Cond),
    Done,
}

struct TaskRec {
    name: String,
    role: &'static str,
    state: TState,
    thread: Thread,
    label: &'static str,
    prio: i64,
}

#[derive(Clone, Default)]
pub struct FaultCfg {
    /// per-mille probabilities per call
    pub short_send: u64,
    pub short_recv: u64,
    pub errno_retry_send: u64,
    pub errno_retry_recv: u64,
    pub errno_broken: u64,
    /// max injected errnos per run
    pub errno_budget: u64,
    /// per-mille probability that a cooperative fault point (`inject_errno`: the workers'
    /// epoll_wait) fails with EINTR instead of being issued; at most `eintr_budget` per run
    pub point_eintr: u64,
    pub eintr_budget: u64,
    /// inject only on sockets with one of these labels (empty = all)
    pub only: Vec<&'static str>,
}

#[derive(Clone, Debug)]
pub struct WireRec {
    pub chan: String,
    pub task: String,
    pub bytes: Vec<u8>,
    pub nfds: usize,
    pub seq: u64,
}

pub struct State {
    tasks: Vec<TaskRec>,
    by_thread: HashMap<ThreadId, usize>,
    announced: usize,
    registered: usize,
    pub w: Tape,
    pub s: Tape,
    pub f: Tape,
    pub policy: Policy,
    pct_changes: Vec<u64>,
    pct_low: i64,
    last_pick: usize,
    same_pick_run: u64,
    sticky_keep: u64,
    pub steps: u64,
    pub step_cap: u64,
    pub choice_points: u64,
    pub ilv_hash: u64,
    pub log_hash: u64,
    pub log: Vec<String>,
    pub seq: u64,
    pub wire: Vec<WireRec>,
    fd_labels: HashMap<RawFd, String>,
    pub faults: FaultCfg,
    errno_used: u64,
    eintr_used: u64,
    pub fault_fired: BTreeMap<&'static str, u64>,
    pub probes: BTreeMap<&'static str, u64>,
    pub prop: String,
    /// role,label pairs for which a forced switch is tried right after the point
    pub hot: Vec<&'static str>,
    pub panics: Vec<String>,
    pub known_hits: BTreeMap<String, u64>,
    /// when set, exceeding the step cap is a violation with this clause (a livelock the
    /// property forbids) instead of a harness error
    pub cap_clause: Option<&'static str>,
    /// event sequence number at which each task last passed each label
    label_seq: HashMap<(usize, &'static str), u64>,
}

/// What a finished (or aborted) run leaves behind.
#[derive(Clone, Default)]
pub struct RunStats {
    pub steps: u64,
    pub choice_points: u64,
    pub ilv_hash: u64,
    pub log_hash: u64,
    pub fault_fired: BTreeMap<&'static str, u64>,
    pub probes: BTreeMap<&'static str, u64>,
    pub w: Vec<u64>,
    pub s: Vec<u64>,
    pub f: Vec<u64>,
    pub log: Vec<String>,
    pub pending: Vec<String>,
    pub known_hits: BTreeMap<String, u64>,
}

impl RunStats {
    pub fn from_state(st: &State) -> RunStats {
        RunStats {
            steps: st.steps,
            choice_points: st.choice_points,
            ilv_hash: st.ilv_hash,
            log_hash: st.log_hash,
            fault_fired: st.fault_fired.clone(),
            probes: st.probes.clone(),
            w: st.w.rec.clone(),
            s: st.s.rec.clone(),
            f: st.f.rec.clone(),
            log: st.log.clone(),
            known_hits: st.known_hits.clone(),
            pending: st
                .tasks
                .iter()
                .skip(1)
                .filter(|t| !matches!(t.state, TState::Done))
                .map(|t| format!("{}@{}", t.name, t.label))
                .collect(),
        }
    }
}

pub struct Shared {
    st: Mutex<State>,
    cv: Condvar,
    current: AtomicUsize,
}

#[derive(Clone)]
pub struct Sim {
    sh: Arc<Shared>,
}

struct Me {
    sh: Arc<Shared>,
    id: usize,
}

thread_local! {
    static ME: RefCell<Option<Me>> = const { RefCell::new(None) };
}

static ACTIVE: Mutex<Option<Arc<Shared>>> = Mutex::new(None);

/// Teardown aid for backends that supply no exit events (their workers can never be asked to
/// stop): once set, a worker waiting in (or arriving at) `epoll_wait` gets EBADF from the
/// cooperative fault point and its event loop ends with an error, so the thread can be joined.
static ABORT_WORKERS: std::sync::atomic::AtomicBool = std::sync::atomic::AtomicBool::new(false);
const EPOLL_WAIT_LABEL: &str = "worker.epoll_wait";

/// Callback invoked (with the state lock held) when a run cannot continue: writes the report
/// and terminates the process. Set by the runner.
pub static FATAL: Mutex<Option<fn(&Violation, &State, bool) -> !>> = Mutex::new(None);

fn fatal(v: Violation, st: &State, harness_error: bool) -> ! {
    let f = FATAL.lock().unwrap().expect("FATAL handler not set");
    f(&v, st, harness_error)
}

fn poll_ready(fd: RawFd, write: bool) -> bool {
    let mut p = libc::pollfd {
        fd,
        events: if write { libc::POLLOUT } else { libc::POLLIN },
        revents: 0,
    };
    // SAFETY: valid pollfd, zero timeout.
    let r = unsafe { libc::poll(&mut p, 1, 0) };
    if r < 0 {
        return true;
    }
    r > 0 && p.revents != 0
}

impl Cond {
    fn ready(&self, tasks: &[TaskRec]) -> bool {
        match self {
            Cond::Always => true,
            Cond::Fd { fd, write } => poll_ready(*fd, *write),
            // SAFETY: see `unsafe impl Send for Cond`.
            Cond::Probe(p) => unsafe { (**p)() },
            Cond::Joined(t) => matches!(tasks[*t].state, TState::Done),
            Cond::Quiescent => false,
        }
    }
}

impl State {
    fn ev(&mut self, task: usize, what: &str) {
        self.seq += 1;
        let name = &self.tasks[task].name;
        fnv(&mut self.log_hash, name.as_bytes());
        fnv(&mut self.log_hash, b":");
        fnv(&mut self.log_hash, what.as_bytes());
        fnv(&mut self.log_hash, b";");
        if self.log.len() < 4000 {
            self.log.push(format!("{} {}: {}", self.seq, name, what));
        }
    }

    pub fn note(&mut self, what: &str) {
        self.seq += 1;
        fnv(&mut self.log_hash, what.as_bytes());
        fnv(&mut self.log_hash, b";");
        if self.log.len() < 4000 {
            self.log.push(format!("{} -- {}", self.seq, what));
        }
    }

    pub fn probe(&mut self, name: &'static str) {
        *self.probes.entry(name).or_insert(0) += 1;
    }

    pub fn fired(&mut self, name: &'static str) {
        *self.fault_fired.entry(name).or_insert(0) += 1;
    }

    /// Choose the next task. `None` = nobody can run.
    fn pick_next(&mut self, from: usize, label: &'static str) -> Option<usize> {
        let mut runnable: Vec<usize> = Vec::new();
        let abort = ABORT_WORKERS.load(Ordering::Relaxed);
        for (i, t) in self.tasks.iter().enumerate() {
            if let TState::Waiting(c) = &t.state {
                if c.ready(&self.tasks) || (abort && t.label == EPOLL_WAIT_LABEL) {
                    runnable.push(i);
                }
            }
        }
        if runnable.is_empty() {
            for (i, t) in self.tasks.iter().enumerate() {
                if let TState::Waiting(Cond::Quiescent) = &t.state {
                    runnable.push(i);
                }
            }
            // quiescence hand-over is not a scheduling choice
            return runnable.first().copied();
        }
        if runnable.len() == 1 {
            return Some(runnable[0]);
        }
        self.choice_points += 1;
        // forced switch right after "hot" labels: places a preemption inside an operation
        if self.hot.iter().any(|h| *h == label) && runnable.contains(&from) && self.s.chance(1, 2) {
            runnable.retain(|t| *t != from);
        }
        let pick = match self.policy {
            Policy::Random => runnable[self.s.draw(runnable.len() as u64) as usize],
            Policy::Sticky => {
                if runnable.contains(&from) && !self.s.chance(1, self.sticky_keep) {
                    from
                } else {
                    runnable[self.s.draw(runnable.len() as u64) as usize]
                }
            }
            Policy::Pct => {
                let mut best = runnable[0];
                for t in &runnable {
                    if self.tasks[*t].prio > self.tasks[best].prio {
                        best = *t;
                    }
                }
                if self.pct_changes.contains(&self.steps) {
                    self.pct_low -= 1;
                    self.tasks[best].prio = self.pct_low;
                    let mut b2 = runnable[0];
                    for t in &runnable {
                        if self.tasks[*t].prio > self.tasks[b2].prio {
                            b2 = *t;
                        }
                    }
                    best = b2;
                }
                best
            }
        };
        // fairness: a task that spins (e.g. a level-triggered wake-up it cannot consume yet) must
        // not starve the task that would end the spin; after 40 consecutive picks with an
        // alternative available it is demoted (PCT) / overridden (other policies)
        let mut pick = pick;
        if pick == self.last_pick {
            self.same_pick_run += 1;
            if self.same_pick_run >= 40 {
                self.same_pick_run = 0;
                self.pct_low -= 1;
                self.tasks[pick].prio = self.pct_low;
                let others: Vec<usize> = runnable.iter().copied().filter(|t| *t != pick).collect();
                // (a forced switch above may have left `pick` as the only candidate)
                if !others.is_empty() {
                    pick = others[(self.steps as usize) % others.len()];
                }
            }
        } else {
            self.same_pick_run = 0;
        }
        self.last_pick = pick;
        let role = self.tasks[pick].role;
        let lab = self.tasks[pick].label;
        fnv(&mut self.ilv_hash, role.as_bytes());
        fnv(&mut self.ilv_hash, lab.as_bytes());
        Some(pick)
    }

    fn blocked_desc(&self) -> Vec<String> {
        let mut v = Vec::new();
        for t in &self.tasks {
            if let TState::Waiting(_) = &t.state {
                v.push(format!("{}@{}", t.role, t.label));
            }
        }
        v.sort();
        v.dedup();
        v
    }

    fn register(&mut self, name: String, role: &'static str) -> usize {
        let id = self.tasks.len();
        let prio = if self.policy == Policy::Pct {
            self.s.draw(1 << 16) as i64
        } else {
            0
        };
        self.tasks.push(TaskRec {
            name,
            role,
            state: TState::Waiting(Cond::Always),
            thread: thread::current(),
            label: "start",
            prio,
        });
        self.by_thread.insert(thread::current().id(), id);
        self.registered += 1;
        id
    }
}

impl Shared {
    fn lock(&self) -> MutexGuard<'_, State> {
        self.st.lock().unwrap_or_else(|e| e.into_inner())
    }

    /// Give the token away (this task now waits for `cond`) and return when it is ours again.
    fn yield_with(&self, me: usize, cond: Cond, label: &'static str) {
        let next;
        {
            let mut st = self.lock();
            st.steps += 1;
            PROGRESS.fetch_add(1, Ordering::Relaxed);
            if st.steps > st.step_cap {
                match st.cap_clause {
                    Some(c) => {
                        let spinning = st.tasks[me].role;
                        let v = Violation::new(&st.prop.clone(), c, spinning, format!("no quiescence within {} scheduling steps: task `{}` keeps running at `{label}`", st.step_cap, st.tasks[me].name));
                        fatal(v, &st, false);
                    }
                    None => {
                        let v = Violation::new(&st.prop.clone(), "step_cap", "", "step cap exceeded");
                        fatal(v, &st, true);
                    }
                }
            }
            st.tasks[me].state = TState::Waiting(cond);
            st.tasks[me].label = label;
            st.ev(me, label);
            let sq = st.seq;
            st.label_seq.insert((me, label), sq);
            match st.pick_next(me, label) {
                Some(n) => next = n,
                None => {
                    let blocked = st.blocked_desc();
                    let v = Violation::new(
                        &st.prop.clone(),
                        "hang",
                        blocked.join(","),
                        format!("no task can make progress; blocked: {blocked:?}"),
                    );
                    fatal(v, &st, false);
                }
            }
            st.tasks[next].state = TState::Running;
            self.current.store(next, Ordering::SeqCst);
            if next != me {
                st.tasks[next].thread.unpark();
            }
        }
        if next != me {
            self.wait_token(me);
        }
    }

    fn wait_token(&self, me: usize) {
        while self.current.load(Ordering::SeqCst) != me {
            thread::park();
        }
    }

    /// Called when a task's thread terminates.
    fn task_exit(&self, me: usize) {
        let mut st = self.lock();
        st.steps += 1;
        PROGRESS.fetch_add(1, Ordering::Relaxed);
        st.tasks[me].state = TState::Done;
        st.tasks[me].label = "exit";
        st.ev(me, "exit");
        let all_done = st.tasks.iter().all(|t| matches!(t.state, TState::Done));
        if all_done {
            self.current.store(NONE, Ordering::SeqCst);
            return;
        }
        match st.pick_next(me, "exit") {
            Some(n) => {
                st.tasks[n].state = TState::Running;
                self.current.store(n, Ordering::SeqCst);
                st.tasks[n].thread.unpark();
            }
            None => {
                let blocked = st.blocked_desc();
                let v = Violation::new(
                    &st.prop.clone(),
                    "hang",
                    blocked.join(","),
                    format!("no task can make progress after a task exit; blocked: {blocked:?}"),
                );
                fatal(v, &st, false);
            }
        }
    }
}

impl Drop for Me {
    fn drop(&mut self) {
        self.sh.task_exit(self.id);
    }
}

fn with_me<R>(f: impl FnOnce(&Arc<Shared>, usize) -> R) -> Option<R> {
    ME.with(|m| m.borrow().as_ref().map(|me| f(&me.sh, me.id)))
}

/// Register the calling (new) thread as a task and wait for the token.
fn enter_task(sh: &Arc<Shared>, name: Option<String>, role: &'static str) {
    let id;
    {
        let mut st = sh.lock();
        let n = st.tasks.iter().filter(|t| t.role == role).count();
        let name = name.unwrap_or_else(|| format!("{role}{n}"));
        id = st.register(name, role);
        sh.cv.notify_all();
    }
    ME.with(|m| {
        *m.borrow_mut() = Some(Me {
            sh: sh.clone(),
            id,
        })
    });
    sh.wait_token(id);
}

// ------------------------------------------------------------------------------------------
// public API used by scenarios
// ------------------------------------------------------------------------------------------

pub struct TaskHandle {
    jh: Option<thread::JoinHandle<()>>,
}

impl Sim {
    /// Create a simulation; the calling thread becomes task 0 ("harness") and holds the token.
    pub fn new(prop: &str, w: Tape, s: Tape, f: Tape) -> Sim {
        let st = State {
            tasks: Vec::new(),
            by_thread: HashMap::new(),
            announced: 0,
            registered: 0,
            w,
            s,
            f,
            policy: Policy::Random,
            pct_changes: Vec::new(),
            pct_low: 0,
            last_pick: NONE,
            same_pick_run: 0,
            sticky_keep: 8,
            steps: 0,
            step_cap: 20_000,
            choice_points: 0,
            ilv_hash: FNV0,
            log_hash: FNV0,
            log: Vec::new(),
            seq: 0,
            wire: Vec::new(),
            fd_labels: HashMap::new(),
            faults: FaultCfg::default(),
            errno_used: 0,
            eintr_used: 0,
            fault_fired: BTreeMap::new(),
            probes: BTreeMap::new(),
            prop: prop.to_string(),
            hot: Vec::new(),
            panics: Vec::new(),
            known_hits: BTreeMap::new(),
            cap_clause: None,
            label_seq: HashMap::new(),
        };
        let sh = Arc::new(Shared {
            st: Mutex::new(st),
            cv: Condvar::new(),
            current: AtomicUsize::new(0),
        });
        {
            let mut st = sh.lock();
            let id = st.register("harness".into(), "harness");
            st.tasks[id].state = TState::Running;
            st.announced = 1;
        }
        ME.with(|m| {
            *m.borrow_mut() = Some(Me {
                sh: sh.clone(),
                id: 0,
            })
        });
        *ACTIVE.lock().unwrap() = Some(sh.clone());
        Sim { sh }
    }

    /// Draw the schedule policy for this run (from the workload tape: it is configuration).
    pub fn choose_policy(&self) {
        let mut st = self.sh.lock();
        let p = st.w.draw(4);
        st.policy = match p {
            0 | 1 => Policy::Random,
            2 => Policy::Pct,
            _ => Policy::Sticky,
        };
        if st.policy == Policy::Pct {
            let d = st.w.draw(4);
            for _ in 0..d {
                let c = st.w.draw(300);
                st.pct_changes.push(c);
            }
            // harness priority
            let p0 = st.s.draw(1 << 16) as i64;
            st.tasks[0].prio = p0;
        }
        st.sticky_keep = 2 + st.w.draw(14);
    }

    pub fn st(&self) -> MutexGuard<'_, State> {
        self.sh.lock()
    }

    pub fn with_w<R>(&self, f: impl FnOnce(&mut Tape) -> R) -> R {
        f(&mut self.sh.lock().w)
    }

    pub fn label_fd(&self, fd: RawFd, label: &str) {
        self.sh.lock().fd_labels.insert(fd, label.to_string());
    }

    pub fn unlabel_fd(&self, fd: RawFd) {
        self.sh.lock().fd_labels.remove(&fd);
    }

    /// Spawn a task. The child is registered before this returns, so task ids are deterministic.
    pub fn spawn<F: FnOnce() + Send + 'static>(&self, name: &str, role: &'static str, f: F) -> TaskHandle {
        let sh = self.sh.clone();
        {
            let mut st = self.sh.lock();
            st.announced += 1;
        }
        let nm = name.to_string();
        let jh = thread::Builder::new()
            .name(nm.clone())
            .spawn(move || {
                enter_task(&sh, Some(nm), role);
                f();
            })
            .expect("spawn");
        let mut st = self.sh.lock();
        while st.registered < st.announced {
            st = self.sh.cv.wait(st).unwrap_or_else(|e| e.into_inner());
        }
        TaskHandle { jh: Some(jh) }
    }

    pub fn join(&self, mut h: TaskHandle) {
        if let Some(jh) = h.jh.take() {
            before_join(jh.thread().id());
            let _ = jh.join();
        }
    }

    /// Wait until no other task can run (or all are done).
    pub fn settle(&self) {
        with_me(|sh, id| sh.yield_with(id, Cond::Quiescent, "settle"));
    }

    pub fn seq(&self) -> u64 {
        let mut st = self.sh.lock();
        st.seq += 1;
        st.seq
    }

    pub fn note(&self, s: &str) {
        self.sh.lock().note(s);
    }

    pub fn probe(&self, name: &'static str) {
        self.sh.lock().probe(name);
    }

    /// Names of tasks that are not done, with their last label.
    pub fn pending_tasks(&self) -> Vec<String> {
        let st = self.sh.lock();
        st.tasks
            .iter()
            .skip(1)
            .filter(|t| !matches!(t.state, TState::Done))
            .map(|t| format!("{}@{}", t.name, t.label))
            .collect()
    }

    pub fn wire_for(&self, chan: &str) -> Vec<WireRec> {
        self.sh.lock().wire.iter().filter(|w| w.chan == chan).cloned().collect()
    }

    /// End of the run: the harness must be the only task left.
    /// See `ABORT_WORKERS`. In force until the run ends.
    pub fn abort_workers(&self) {
        ABORT_WORKERS.store(true, Ordering::Relaxed);
    }

    pub fn finish(self) -> RunStats {
        ABORT_WORKERS.store(false, Ordering::Relaxed);
        *ACTIVE.lock().unwrap() = None;
        ME.with(|m| {
            if let Some(me) = m.borrow_mut().take() {
                // do not run task_exit for the harness, but let go of its reference to the run's
                // state (forgetting `me` whole kept every run's State alive: ~45 KB per run)
                let me = std::mem::ManuallyDrop::new(me);
                // SAFETY: `me` is never used or dropped again; the Arc is moved out exactly once.
                drop(unsafe { std::ptr::read(&me.sh) });
            }
        });
        PROGRESS.fetch_add(1, Ordering::Relaxed);
        let st = self.sh.lock();
        RunStats::from_state(&st)
    }

    /// Report a violation found by an oracle: writes the report and ends the process.
    pub fn violation(&self, v: Violation) -> ! {
        let st = self.sh.lock();
        fatal(v, &st, false)
    }

    pub fn harness_error(&self, msg: &str) -> ! {
        let st = self.sh.lock();
        let v = Violation::new(&st.prop.clone(), "harness", "", msg);
        fatal(v, &st, true)
    }
}

/// Signature prefixes of recorded known findings (set by the runner from known_findings.json).
pub static KNOWN: Mutex<Vec<(String, String)>> = Mutex::new(Vec::new());

/// A violation that leaves the run able to continue (no task is stuck because of it): if it is a
/// recorded known finding it is counted and the run goes on; otherwise it is fatal.
pub fn soft_violation(v: Violation) {
    let sig = v.signature();
    let known = KNOWN.lock().unwrap().iter().find(|(p, _)| sig.starts_with(p)).map(|(_, w)| w.clone());
    let sh = ACTIVE.lock().unwrap().clone().expect("no active sim");
    let mut st = sh.lock();
    match known {
        Some(what) => {
            *st.known_hits.entry(what).or_insert(0) += 1;
        }
        None => fatal(v, &st, false),
    }
}

/// Violation raised from any task (uses the active simulation).
pub fn violation(v: Violation) -> ! {
    let sh = ACTIVE.lock().unwrap().clone().expect("no active sim");
    let st = sh.lock();
    fatal(v, &st, false)
}

/// Event sequence number at which the calling task last passed the sync point `label` (0 = never).
pub fn my_last_seq(label: &'static str) -> u64 {
    with_me(|sh, id| sh.lock().label_seq.get(&(id, label)).copied().unwrap_or(0)).unwrap_or(0)
}

/// Latest event sequence number at which any task of `role` passed `label` (0 = never).
pub fn last_seq_of_role(role: &str, label: &'static str) -> u64 {
    with_me(|sh, _| {
        let st = sh.lock();
        st.label_seq
            .iter()
            .filter(|((t, l), _)| *l == label && st.tasks[*t].role == role)
            .map(|(_, s)| *s)
            .max()
            .unwrap_or(0)
    })
    .unwrap_or(0)
}

pub fn is_task() -> bool {
    ME.with(|m| m.borrow().is_some())
}

pub fn point(label: &'static str) {
    with_me(|sh, id| sh.yield_with(id, Cond::Always, label));
}

pub fn wait_fd(fd: RawFd, write: bool, label: &'static str) {
    with_me(|sh, id| sh.yield_with(id, Cond::Fd { fd, write }, label));
}

pub fn wait_until(ready: &dyn Fn() -> bool, label: &'static str) {
    // SAFETY: lifetime erasure; the reference outlives the call because we do not return
    // before the token is ours again, and nobody evaluates the probe after that.
    let p: *const (dyn Fn() -> bool + 'static) = unsafe { std::mem::transmute(ready) };
    with_me(|sh, id| sh.yield_with(id, Cond::Probe(p), label));
}

pub fn before_join(tid: ThreadId) {
    with_me(|sh, id| {
        let t = sh.lock().by_thread.get(&tid).copied();
        if let Some(t) = t {
            sh.yield_with(id, Cond::Joined(t), "join");
        }
    });
}

fn thread_spawned() {
    with_me(|sh, _| {
        let mut st = sh.lock();
        st.announced += 1;
        while st.registered < st.announced {
            st = sh.cv.wait(st).unwrap_or_else(|e| e.into_inner());
        }
    });
}

fn thread_enter(role: &'static str) {
    if is_task() {
        return;
    }
    let sh = ACTIVE.lock().unwrap().clone();
    if let Some(sh) = sh {
        enter_task(&sh, None, role);
    }
}

fn chan_of(st: &State, fd: RawFd) -> String {
    st.fd_labels.get(&fd).cloned().unwrap_or_else(|| "unlabeled".to_string())
}

fn fault_applies(st: &State, chan: &str) -> bool {
    st.faults.only.is_empty() || st.faults.only.iter().any(|l| *l == chan)
}

const RETRY_ERRNOS: [i32; 4] = [libc::EINTR, libc::EAGAIN, libc::ENOBUFS, libc::ENOMEM];
const BROKEN_ERRNOS: [i32; 2] = [libc::ECONNRESET, libc::EPIPE];

fn hook_send(sock: &UnixStream, iovs: &[&[u8]], fds: &[RawFd]) -> Result<usize, i32> {
    let fd = sock.as_raw_fd();
    wait_fd(fd, true, "send");
    let (sh, id) = with_me(|sh, id| (sh.clone(), id)).expect("task");
    let total: usize = iovs.iter().map(|v| v.len()).sum();
    let mut cut = total;
    {
        let mut st = sh.lock();
        let chan = chan_of(&st, fd);
        if fault_applies(&st, &chan) {
            let fc = st.faults.clone();
            if fc.errno_retry_send > 0 && st.errno_used < fc.errno_budget && st.f.chance(fc.errno_retry_send, 1000) {
                st.errno_used += 1;
                let e = RETRY_ERRNOS[st.f.draw(4) as usize];
                st.fired("send_errno_retry");
                st.ev(id, "send -> injected retry errno");
                return Err(e);
            }
            if fc.errno_broken > 0 && st.errno_used < fc.errno_budget && st.f.chance(fc.errno_broken, 1000) {
                st.errno_used += 1;
                let e = BROKEN_ERRNOS[st.f.draw(2) as usize];
                st.fired("send_errno_broken");
                st.ev(id, "send -> injected broken errno");
                return Err(e);
            }
            if total > 1 && fc.short_send > 0 && st.f.chance(fc.short_send, 1000) {
                let k = match st.f.draw(6) {
                    0 => 1,
                    1 => 11,
                    2 => 12,
                    3 => 13,
                    4 => total - 1,
                    _ => 1 + st.f.draw(total as u64 - 1) as usize,
                };
                cut = k.clamp(1, total - 1);
                st.fired("short_send");
            }
        }
    }
    let mut v: Vec<&[u8]> = Vec::with_capacity(iovs.len());
    let mut left = cut;
    for s in iovs {
        if left == 0 {
            break;
        }
        let n = s.len().min(left);
        v.push(&s[..n]);
        left -= n;
    }
    let res = sock.send_with_fds(&v[..], fds).map_err(|e| e.errno());
    let mut st = sh.lock();
    match &res {
        Ok(n) => {
            if *n < cut {
                st.fired("kernel_partial_write");
            }
            let mut bytes = Vec::with_capacity(*n);
            let mut left = *n;
            for s in &v {
                let k = s.len().min(left);
                bytes.extend_from_slice(&s[..k]);
                left -= k;
            }
            let chan = chan_of(&st, fd);
            let task = st.tasks[id].name.clone();
            st.seq += 1;
            let seq = st.seq;
            st.wire.push(WireRec {
                chan,
                task,
                bytes,
                nfds: fds.len(),
                seq,
            });
            st.ev(id, "sent");
        }
        Err(e) => {
            if *e == libc::EAGAIN {
                st.fired("kernel_eagain_on_send");
            }
            st.ev(id, "send failed")
        }
    }
    res
}

unsafe fn hook_recv(sock: &UnixStream, iovs: &mut [iovec], fds: &mut [RawFd]) -> Result<(usize, usize), i32> {
    let fd = sock.as_raw_fd();
    wait_fd(fd, false, "recv");
    let (sh, id) = with_me(|sh, id| (sh.clone(), id)).expect("task");
    let total: usize = iovs.iter().map(|v| v.iov_len).sum();
    let mut cut = total;
    {
        let mut st = sh.lock();
        let chan = chan_of(&st, fd);
        if fault_applies(&st, &chan) {
            let fc = st.faults.clone();
            if fc.errno_retry_recv > 0 && st.errno_used < fc.errno_budget && st.f.chance(fc.errno_retry_recv, 1000) {
                st.errno_used += 1;
                let e = RETRY_ERRNOS[st.f.draw(4) as usize];
                st.fired("recv_errno_retry");
                st.ev(id, "recv -> injected retry errno");
                return Err(e);
            }
            if total > 1 && fc.short_recv > 0 && st.f.chance(fc.short_recv, 1000) {
                let k = match st.f.draw(4) {
                    0 => 1,
                    1 => total - 1,
                    _ => 1 + st.f.draw(total as u64 - 1) as usize,
                };
                cut = k.clamp(1, total - 1);
                st.fired("short_recv");
            }
        }
    }
    let mut v: Vec<iovec> = Vec::with_capacity(iovs.len());
    let mut left = cut;
    for s in iovs.iter() {
        if left == 0 {
            break;
        }
        let n = s.iov_len.min(left);
        v.push(iovec {
            iov_base: s.iov_base,
            iov_len: n,
        });
        left -= n;
    }
    let res = sock.recv_with_fds(&mut v[..], fds).map_err(|e| e.errno());
    let mut st = sh.lock();
    match &res {
        Ok((n, k)) => {
            let what = if *n == 0 { "recv eof" } else { "recvd" };
            st.ev(id, what);
            if *k > 0 {
                st.probe("recv_with_fds");
            }
        }
        Err(_) => st.ev(id, "recv failed"),
    }
    res
}

/// Cooperative fault points of the library ("buggify"): a system call that is allowed to fail
/// with EINTR does so when the fault tape says so.
fn inject_errno(label: &'static str) -> Option<i32> {
    let (sh, id) = with_me(|sh, id| (sh.clone(), id))?;
    let mut st = sh.lock();
    if label == EPOLL_WAIT_LABEL && ABORT_WORKERS.load(Ordering::Relaxed) {
        st.ev(id, "worker.epoll_wait -> EBADF (teardown of a backend without exit events)");
        return Some(libc::EBADF);
    }
    let fc = st.faults.clone();
    if fc.point_eintr == 0 || st.eintr_used >= fc.eintr_budget {
        return None;
    }
    if st.f.chance(fc.point_eintr, 1000) {
        st.eintr_used += 1;
        st.fired("epoll_wait_eintr");
        st.ev(id, &format!("{label} -> injected EINTR"));
        return Some(libc::EINTR);
    }
    None
}

static HOOKS: vhost::verif::Hooks = vhost::verif::Hooks {
    is_task,
    point,
    wait_fd,
    wait_until,
    send: hook_send,
    recv: hook_recv,
    thread_spawned,
    thread_enter,
    before_join,
    inject_errno,
};

pub fn install_hooks() {
    vhost::verif::install(&HOOKS);
}
