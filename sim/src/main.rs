//! vsim: deterministic simulation with fault injection for rust-vmm/vhost.
#![allow(dead_code)]

mod fdu;
mod json;
mod rec;
mod rng;
mod runner;
mod scen;
mod sched;
mod spec;

use scen::Tier;

fn usage() -> ! {
    eprintln!(
        "usage:\n  vsim check <PROP> <quick|thorough> [--seed N] [--jobs J] [--runs R]\n  vsim replay <file>\n  vsim list\n  vsim determinism <PROP> <quick|thorough> [--n N]"
    );
    std::process::exit(2);
}

fn opt(args: &[String], name: &str) -> Option<u64> {
    args.iter()
        .position(|a| a == name)
        .and_then(|i| args.get(i + 1))
        .and_then(|v| v.parse().ok())
}

fn main() {
    let args: Vec<String> = std::env::args().collect();
    if args.len() < 2 {
        usage();
    }
    match args[1].as_str() {
        "list" => {
            for d in scen::all() {
                println!("{}", d.id);
            }
        }
        "check" => {
            if args.len() < 4 {
                usage();
            }
            let def = scen::find(&args[2]).unwrap_or_else(|| {
                eprintln!("unknown property {}", args[2]);
                std::process::exit(2)
            });
            let tier = Tier::parse(&args[3]);
            let seed = opt(&args, "--seed")
                .or_else(|| std::env::var("VERIF_SEED").ok().and_then(|s| s.parse().ok()))
                .unwrap_or(1);
            let jobs = opt(&args, "--jobs").unwrap_or(16);
            let runs = opt(&args, "--runs");
            let code = runner::check_main(
                def,
                &runner::CheckOpts {
                    tier,
                    seed,
                    jobs,
                    runs,
                },
            );
            std::process::exit(code);
        }
        "worker" => {
            // worker <prop> <tier> <base> <lo> <hi> <out>
            let def = scen::find(&args[2]).expect("prop");
            let tier = Tier::parse(&args[3]);
            let base: u64 = args[4].parse().unwrap();
            let lo: u64 = args[5].parse().unwrap();
            let hi: u64 = args[6].parse().unwrap();
            runner::worker_main(def, tier, base, lo, hi, std::path::Path::new(&args[7]));
        }
        "replay" => {
            if args.len() < 3 {
                usage();
            }
            std::process::exit(runner::replay_main(&args[2], None));
        }
        "replay-internal" => {
            std::process::exit(runner::replay_main(&args[2], Some(&args[3])));
        }
        "determinism" => {
            let def = scen::find(&args[2]).expect("prop");
            let tier = Tier::parse(&args[3]);
            let n = opt(&args, "--n").unwrap_or(200);
            let seed = opt(&args, "--seed").unwrap_or(1);
            std::process::exit(runner::determinism_main(def, tier, seed, n));
        }
        "trace" => {
            // trace <prop> <tier> <base> <lo> <hi> <out>: prints one line per run with the log hash
            let def = scen::find(&args[2]).expect("prop");
            let tier = Tier::parse(&args[3]);
            let base: u64 = args[4].parse().unwrap();
            let lo: u64 = args[5].parse().unwrap();
            let hi: u64 = args[6].parse().unwrap();
            runner::trace_main(def, tier, base, lo, hi, std::path::Path::new(&args[7]));
        }
        _ => usage(),
    }
}
