//! Recording application handlers (backend side and frontend side) with scripted outcomes, and
//! the executor that issues a typed request through the real `Frontend` API.

use std::fs::File;
use std::os::fd::OwnedFd;
use std::os::unix::io::{AsRawFd, FromRawFd, IntoRawFd, RawFd};
use std::sync::Mutex;

use vhost::vhost_user::message::*;
use vhost::vhost_user::{
    Backend, Error as VuError, Frontend, GpuBackend, HandlerResult, Result as VuResult,
    VhostUserBackendReqHandler, VhostUserBackendReqHandlerMut, VhostUserFrontend,
    VhostUserFrontendReqHandler, VhostUserFrontendReqHandlerMut,
};
use vhost::{VhostBackend, VhostUserDirtyLogRegion, VhostUserMemoryRegionInfo, VringConfigData};
use vmm_sys_util::eventfd::EventFd;

use crate::fdu;
use crate::spec::{BReq, FReq, Inflight, MMap, Region};

/// Scripted outcome of one handler invocation.
#[derive(Clone, Debug, Default)]
pub struct Script {
    pub fail: bool,
    pub val: u64,
    pub bytes: Vec<u8>,
    /// for SET_DEVICE_STATE_FD: return a file; for results that always carry one it is ignored
    pub with_file: bool,
    /// errno for frontend-side handlers (0 = error without errno)
    pub errno: i32,
}

pub struct CallRec {
    pub req: FReq,
    pub files: Vec<File>,
    pub seq: u64,
    /// files the handler produced for the reply (dup kept for identity checks)
    pub produced: Vec<File>,
}

#[derive(Default)]
pub struct RecState {
    pub calls: Vec<CallRec>,
    pub scripts: Vec<Script>,
    pub backends: Vec<Backend>,
    pub gpu: Vec<GpuBackend>,
    pub seq_fn: Option<Box<dyn Fn() -> u64 + Send>>,
}

impl RecState {
    fn script(&self) -> Script {
        self.scripts.get(self.calls.len()).cloned().unwrap_or_default()
    }
    fn push(&mut self, req: FReq, files: Vec<File>) -> Script {
        let s = self.script();
        let seq = self.seq_fn.as_ref().map(|f| f()).unwrap_or(0);
        self.calls.push(CallRec {
            req,
            files,
            seq,
            produced: Vec::new(),
        });
        s
    }
    fn produce(&mut self, tag: &str) -> File {
        let f = fdu::memfd(tag, 4096);
        let d = f.try_clone().expect("dup");
        self.calls.last_mut().unwrap().produced.push(d);
        f
    }
}

/// The scripted failure of a backend-side handler; which error value it carries is derived from
/// the script (errno 0 and errors without errno included: a failure is a failure whatever it
/// carries).
fn herr(s: &Script) -> VuError {
    VuError::ReqHandlerError(match s.val % 6 {
        0 => std::io::Error::from_raw_os_error(0),
        1 => std::io::Error::from_raw_os_error(libc::EINVAL),
        2 => std::io::Error::other("scripted failure without errno"),
        3 => std::io::Error::from_raw_os_error(i32::MAX),
        4 => std::io::Error::from_raw_os_error(-1),
        _ => std::io::Error::from_raw_os_error(libc::EIO),
    })
}

fn unit(s: &Script) -> VuResult<()> {
    if s.fail {
        Err(herr(s))
    } else {
        Ok(())
    }
}

fn region_of(r: &VhostUserMemoryRegion) -> Region {
    Region {
        gpa: r.guest_phys_addr,
        size: r.memory_size,
        uva: r.user_addr,
        off: r.mmap_offset,
    }
}

fn inflight_of(i: &VhostUserInflight) -> Inflight {
    Inflight {
        mmap_size: i.mmap_size,
        mmap_offset: i.mmap_offset,
        num_queues: i.num_queues,
        queue_size: i.queue_size,
    }
}

/// Handler without interior mutability, to be used behind the library's `Mutex<T>` adapter.
#[derive(Default)]
pub struct RecMut {
    pub st: RecState,
}

impl VhostUserBackendReqHandlerMut for RecMut {
    fn set_owner(&mut self) -> VuResult<()> {
        unit(&self.st.push(FReq::SetOwner, vec![]))
    }
    fn reset_owner(&mut self) -> VuResult<()> {
        unit(&self.st.push(FReq::ResetOwner, vec![]))
    }
    fn reset_device(&mut self) -> VuResult<()> {
        unit(&self.st.push(FReq::ResetDevice, vec![]))
    }
    fn get_features(&mut self) -> VuResult<u64> {
        let s = self.st.push(FReq::GetFeatures, vec![]);
        unit(&s).map(|_| s.val)
    }
    fn set_features(&mut self, features: u64) -> VuResult<()> {
        unit(&self.st.push(FReq::SetFeatures(features), vec![]))
    }
    fn set_mem_table(&mut self, ctx: &[VhostUserMemoryRegion], files: Vec<File>) -> VuResult<()> {
        let rs = ctx.iter().map(region_of).collect();
        unit(&self.st.push(FReq::SetMemTable(rs), files))
    }
    fn set_vring_num(&mut self, index: u32, num: u32) -> VuResult<()> {
        unit(&self.st.push(FReq::SetVringNum { idx: index, num }, vec![]))
    }
    fn set_vring_addr(
        &mut self,
        index: u32,
        flags: VhostUserVringAddrFlags,
        descriptor: u64,
        used: u64,
        available: u64,
        log: u64,
    ) -> VuResult<()> {
        unit(&self.st.push(
            FReq::SetVringAddr {
                idx: index,
                flags: flags.bits(),
                desc: descriptor,
                used,
                avail: available,
                log,
            },
            vec![],
        ))
    }
    fn set_vring_base(&mut self, index: u32, base: u32) -> VuResult<()> {
        unit(&self.st.push(FReq::SetVringBase { idx: index, num: base }, vec![]))
    }
    fn get_vring_base(&mut self, index: u32) -> VuResult<VhostUserVringState> {
        let s = self.st.push(FReq::GetVringBase { idx: index }, vec![]);
        unit(&s).map(|_| VhostUserVringState::new(index, s.val as u32))
    }
    fn set_vring_kick(&mut self, index: u8, fd: Option<File>) -> VuResult<()> {
        let nofd = fd.is_none();
        unit(&self.st.push(FReq::SetVringKick { idx: index, nofd }, fd.into_iter().collect()))
    }
    fn set_vring_call(&mut self, index: u8, fd: Option<File>) -> VuResult<()> {
        let nofd = fd.is_none();
        unit(&self.st.push(FReq::SetVringCall { idx: index, nofd }, fd.into_iter().collect()))
    }
    fn set_vring_err(&mut self, index: u8, fd: Option<File>) -> VuResult<()> {
        let nofd = fd.is_none();
        unit(&self.st.push(FReq::SetVringErr { idx: index, nofd }, fd.into_iter().collect()))
    }
    fn get_protocol_features(&mut self) -> VuResult<VhostUserProtocolFeatures> {
        let s = self.st.push(FReq::GetProtocolFeatures, vec![]);
        unit(&s).map(|_| VhostUserProtocolFeatures::from_bits_retain(s.val))
    }
    fn set_protocol_features(&mut self, features: u64) -> VuResult<()> {
        unit(&self.st.push(FReq::SetProtocolFeatures(features), vec![]))
    }
    fn get_queue_num(&mut self) -> VuResult<u64> {
        let s = self.st.push(FReq::GetQueueNum, vec![]);
        unit(&s).map(|_| s.val)
    }
    fn set_vring_enable(&mut self, index: u32, enable: bool) -> VuResult<()> {
        unit(&self.st.push(
            FReq::SetVringEnable {
                idx: index,
                num: enable as u32,
            },
            vec![],
        ))
    }
    fn get_config(&mut self, offset: u32, size: u32, flags: VhostUserConfigFlags) -> VuResult<Vec<u8>> {
        let s = self.st.push(
            FReq::GetConfig {
                off: offset,
                size,
                flags: flags.bits(),
                payload: vec![],
            },
            vec![],
        );
        unit(&s).map(|_| s.bytes.clone())
    }
    fn set_config(&mut self, offset: u32, buf: &[u8], flags: VhostUserConfigFlags) -> VuResult<()> {
        unit(&self.st.push(
            FReq::SetConfig {
                off: offset,
                flags: flags.bits(),
                payload: buf.to_vec(),
            },
            vec![],
        ))
    }
    fn set_backend_req_fd(&mut self, backend: Backend) {
        self.st.push(FReq::SetBackendReqFd, vec![]);
        self.st.backends.push(backend);
    }
    fn set_gpu_socket(&mut self, gpu_backend: GpuBackend) -> VuResult<()> {
        let s = self.st.push(FReq::GpuSetSocket, vec![]);
        self.st.gpu.push(gpu_backend);
        unit(&s)
    }
    fn get_shared_object(&mut self, uuid: VhostUserSharedMsg) -> VuResult<File> {
        let s = self.st.push(FReq::GetSharedObject(*uuid.uuid.as_bytes()), vec![]);
        if s.fail {
            return Err(herr(&s));
        }
        Ok(self.st.produce("shobj"))
    }
    fn get_inflight_fd(&mut self, inflight: &VhostUserInflight) -> VuResult<(VhostUserInflight, File)> {
        let s = self.st.push(FReq::GetInflightFd(inflight_of(inflight)), vec![]);
        if s.fail {
            return Err(herr(&s));
        }
        let f = self.st.produce("inflight");
        Ok((
            VhostUserInflight::new(s.val, s.val.rotate_left(17), (s.val as u16) | 1, ((s.val >> 16) as u16) | 1),
            f,
        ))
    }
    fn set_inflight_fd(&mut self, inflight: &VhostUserInflight, file: File) -> VuResult<()> {
        unit(&self.st.push(FReq::SetInflightFd(inflight_of(inflight)), vec![file]))
    }
    fn get_max_mem_slots(&mut self) -> VuResult<u64> {
        let s = self.st.push(FReq::GetMaxMemSlots, vec![]);
        unit(&s).map(|_| s.val)
    }
    fn add_mem_region(&mut self, region: &VhostUserSingleMemoryRegion, fd: File) -> VuResult<()> {
        unit(&self.st.push(FReq::AddMemReg(region_of(region)), vec![fd]))
    }
    fn remove_mem_region(&mut self, region: &VhostUserSingleMemoryRegion) -> VuResult<()> {
        unit(&self.st.push(FReq::RemMemReg(region_of(region)), vec![]))
    }
    fn set_device_state_fd(
        &mut self,
        direction: VhostTransferStateDirection,
        phase: VhostTransferStatePhase,
        fd: File,
    ) -> VuResult<Option<File>> {
        let s = self.st.push(
            FReq::SetDeviceStateFd {
                dir: direction as u32,
                phase: phase as u32,
            },
            vec![fd],
        );
        if s.fail {
            return Err(herr(&s));
        }
        if s.with_file {
            Ok(Some(self.st.produce("devstate")))
        } else {
            Ok(None)
        }
    }
    fn check_device_state(&mut self) -> VuResult<()> {
        unit(&self.st.push(FReq::CheckDeviceState, vec![]))
    }
    fn get_shmem_config(&mut self) -> VuResult<VhostUserShMemConfig> {
        let s = self.st.push(FReq::GetShmemConfig, vec![]);
        if s.fail {
            return Err(herr(&s));
        }
        let n = (s.val % 257) as u32;
        let sizes: Vec<u64> = (0..256u64).map(|i| s.val.wrapping_mul(i + 1)).collect();
        Ok(VhostUserShMemConfig::new(n, &sizes))
    }
    fn set_log_base(&mut self, log: &VhostUserLog, file: File) -> VuResult<()> {
        unit(&self.st.push(
            FReq::SetLogBase {
                size: log.mmap_size,
                off: log.mmap_offset,
            },
            vec![file],
        ))
    }
}

/// Handler with interior mutability (implements the `&self` trait directly).
#[derive(Default)]
pub struct RecDirect {
    pub inner: Mutex<RecMut>,
}

macro_rules! fwd {
    ($self:ident, $m:ident ( $($a:expr),* )) => { $self.inner.lock().unwrap().$m($($a),*) };
}

impl VhostUserBackendReqHandler for RecDirect {
    fn set_owner(&self) -> VuResult<()> {
        fwd!(self, set_owner())
    }
    fn reset_owner(&self) -> VuResult<()> {
        fwd!(self, reset_owner())
    }
    fn reset_device(&self) -> VuResult<()> {
        fwd!(self, reset_device())
    }
    fn get_features(&self) -> VuResult<u64> {
        fwd!(self, get_features())
    }
    fn set_features(&self, f: u64) -> VuResult<()> {
        fwd!(self, set_features(f))
    }
    fn set_mem_table(&self, c: &[VhostUserMemoryRegion], f: Vec<File>) -> VuResult<()> {
        fwd!(self, set_mem_table(c, f))
    }
    fn set_vring_num(&self, i: u32, n: u32) -> VuResult<()> {
        fwd!(self, set_vring_num(i, n))
    }
    fn set_vring_addr(&self, i: u32, fl: VhostUserVringAddrFlags, d: u64, u: u64, a: u64, l: u64) -> VuResult<()> {
        fwd!(self, set_vring_addr(i, fl, d, u, a, l))
    }
    fn set_vring_base(&self, i: u32, b: u32) -> VuResult<()> {
        fwd!(self, set_vring_base(i, b))
    }
    fn get_vring_base(&self, i: u32) -> VuResult<VhostUserVringState> {
        fwd!(self, get_vring_base(i))
    }
    fn set_vring_kick(&self, i: u8, f: Option<File>) -> VuResult<()> {
        fwd!(self, set_vring_kick(i, f))
    }
    fn set_vring_call(&self, i: u8, f: Option<File>) -> VuResult<()> {
        fwd!(self, set_vring_call(i, f))
    }
    fn set_vring_err(&self, i: u8, f: Option<File>) -> VuResult<()> {
        fwd!(self, set_vring_err(i, f))
    }
    fn get_protocol_features(&self) -> VuResult<VhostUserProtocolFeatures> {
        fwd!(self, get_protocol_features())
    }
    fn set_protocol_features(&self, f: u64) -> VuResult<()> {
        fwd!(self, set_protocol_features(f))
    }
    fn get_queue_num(&self) -> VuResult<u64> {
        fwd!(self, get_queue_num())
    }
    fn set_vring_enable(&self, i: u32, e: bool) -> VuResult<()> {
        fwd!(self, set_vring_enable(i, e))
    }
    fn get_config(&self, o: u32, s: u32, f: VhostUserConfigFlags) -> VuResult<Vec<u8>> {
        fwd!(self, get_config(o, s, f))
    }
    fn set_config(&self, o: u32, b: &[u8], f: VhostUserConfigFlags) -> VuResult<()> {
        fwd!(self, set_config(o, b, f))
    }
    fn set_backend_req_fd(&self, b: Backend) {
        fwd!(self, set_backend_req_fd(b))
    }
    fn set_gpu_socket(&self, g: GpuBackend) -> VuResult<()> {
        fwd!(self, set_gpu_socket(g))
    }
    fn get_shared_object(&self, u: VhostUserSharedMsg) -> VuResult<File> {
        fwd!(self, get_shared_object(u))
    }
    fn get_inflight_fd(&self, i: &VhostUserInflight) -> VuResult<(VhostUserInflight, File)> {
        fwd!(self, get_inflight_fd(i))
    }
    fn set_inflight_fd(&self, i: &VhostUserInflight, f: File) -> VuResult<()> {
        fwd!(self, set_inflight_fd(i, f))
    }
    fn get_max_mem_slots(&self) -> VuResult<u64> {
        fwd!(self, get_max_mem_slots())
    }
    fn add_mem_region(&self, r: &VhostUserSingleMemoryRegion, f: File) -> VuResult<()> {
        fwd!(self, add_mem_region(r, f))
    }
    fn remove_mem_region(&self, r: &VhostUserSingleMemoryRegion) -> VuResult<()> {
        fwd!(self, remove_mem_region(r))
    }
    fn set_device_state_fd(
        &self,
        d: VhostTransferStateDirection,
        p: VhostTransferStatePhase,
        f: File,
    ) -> VuResult<Option<File>> {
        fwd!(self, set_device_state_fd(d, p, f))
    }
    fn check_device_state(&self) -> VuResult<()> {
        fwd!(self, check_device_state())
    }
    fn get_shmem_config(&self) -> VuResult<VhostUserShMemConfig> {
        fwd!(self, get_shmem_config())
    }
    fn set_log_base(&self, l: &VhostUserLog, f: File) -> VuResult<()> {
        fwd!(self, set_log_base(l, f))
    }
}

// ------------------------------------------------------------------------------------------
// issuing a typed request through the real Frontend API
// ------------------------------------------------------------------------------------------

#[derive(Debug)]
pub enum FeOk {
    Unit,
    U64(u64),
    Config(u32, u32, u32, Vec<u8>),
    File(File),
    Inflight(Inflight, File),
    OptFile(Option<File>),
    Shmem(u32, Vec<u64>),
}

/// Descriptors lent to a call (created by the harness, closed by the harness).
pub struct Lent {
    pub files: Vec<File>,
    pub eventfd: Option<EventFd>,
}

impl Lent {
    pub fn for_req(req: &FReq) -> Lent {
        let mut files = Vec::new();
        let mut eventfd = None;
        match req {
            FReq::SetMemTable(rs) => {
                for (i, _) in rs.iter().enumerate() {
                    files.push(fdu::memfd(&format!("region{i}"), 4096));
                }
            }
            FReq::SetVringKick { .. } | FReq::SetVringCall { .. } | FReq::SetVringErr { .. } => {
                eventfd = Some(EventFd::new(0).expect("eventfd"));
            }
            FReq::SetBackendReqFd | FReq::GpuSetSocket => {
                let (a, b) = fdu::sockpair();
                // SAFETY: converting owned socket fds into Files.
                files.push(unsafe { File::from_raw_fd(a.into_raw_fd()) });
                files.push(unsafe { File::from_raw_fd(b.into_raw_fd()) });
            }
            _ => {
                for i in 0..req.nfds() {
                    files.push(fdu::memfd(&format!("lent{i}"), 4096));
                }
            }
        }
        Lent { files, eventfd }
    }
    /// raw fds that travel with the request, in order
    pub fn wire_fds(&self, req: &FReq) -> Vec<RawFd> {
        match req {
            FReq::SetVringKick { nofd, .. } | FReq::SetVringCall { nofd, .. } | FReq::SetVringErr { nofd, .. } => {
                if *nofd {
                    vec![]
                } else {
                    vec![self.eventfd.as_ref().unwrap().as_raw_fd()]
                }
            }
            FReq::SetBackendReqFd | FReq::GpuSetSocket => vec![self.files[0].as_raw_fd()],
            _ => self.files.iter().take(req.nfds()).map(|f| f.as_raw_fd()).collect(),
        }
    }
}

pub fn fe_err(e: vhost::Error) -> String {
    format!("{e:?}")
}

/// Issue `req` through the public API of the real `Frontend`. `None` = the API has no method
/// for this request shape.
pub fn fe_call(fe: &mut Frontend, req: &FReq, lent: &Lent) -> Option<Result<FeOk, vhost::Error>> {
    use FReq::*;
    let r = match req {
        GetFeatures => fe.get_features().map(FeOk::U64),
        SetFeatures(x) => fe.set_features(*x).map(|_| FeOk::Unit),
        SetOwner => fe.set_owner().map(|_| FeOk::Unit),
        ResetOwner => fe.reset_owner().map(|_| FeOk::Unit),
        SetMemTable(rs) => {
            let infos: Vec<VhostUserMemoryRegionInfo> = rs
                .iter()
                .enumerate()
                .map(|(i, r)| VhostUserMemoryRegionInfo {
                    guest_phys_addr: r.gpa,
                    memory_size: r.size,
                    userspace_addr: r.uva,
                    mmap_offset: r.off,
                    mmap_handle: lent.files.get(i).map(|f| f.as_raw_fd()).unwrap_or(-1),
                })
                .collect();
            fe.set_mem_table(&infos).map(|_| FeOk::Unit)
        }
        SetLogBase { size, off } => fe
            .set_log_base(
                0,
                Some(VhostUserDirtyLogRegion {
                    mmap_size: *size,
                    mmap_offset: *off,
                    mmap_handle: lent.files[0].as_raw_fd(),
                }),
            )
            .map(|_| FeOk::Unit),
        SetVringNum { idx, num } => {
            if *num > 0xffff {
                return None;
            }
            fe.set_vring_num(*idx as usize, *num as u16).map(|_| FeOk::Unit)
        }
        SetVringAddr { idx, flags, desc, used, avail, log } => {
            let cd = VringConfigData {
                queue_max_size: 256,
                queue_size: 128,
                flags: *flags,
                desc_table_addr: *desc,
                used_ring_addr: *used,
                avail_ring_addr: *avail,
                log_addr: Some(*log),
            };
            fe.set_vring_addr(*idx as usize, &cd).map(|_| FeOk::Unit)
        }
        SetVringBase { idx, num } => {
            if *num > 0xffff {
                return None;
            }
            fe.set_vring_base(*idx as usize, *num as u16).map(|_| FeOk::Unit)
        }
        GetVringBase { idx } => fe.get_vring_base(*idx as usize).map(|v| FeOk::U64(v as u64)),
        SetVringKick { idx, nofd } => {
            if *nofd {
                return None;
            }
            fe.set_vring_kick(*idx as usize, lent.eventfd.as_ref().unwrap()).map(|_| FeOk::Unit)
        }
        SetVringCall { idx, nofd } => {
            if *nofd {
                return None;
            }
            fe.set_vring_call(*idx as usize, lent.eventfd.as_ref().unwrap()).map(|_| FeOk::Unit)
        }
        SetVringErr { idx, nofd } => {
            if *nofd {
                return None;
            }
            fe.set_vring_err(*idx as usize, lent.eventfd.as_ref().unwrap()).map(|_| FeOk::Unit)
        }
        GetProtocolFeatures => fe.get_protocol_features().map(|f| FeOk::U64(f.bits())),
        SetProtocolFeatures(x) => fe
            .set_protocol_features(VhostUserProtocolFeatures::from_bits_retain(*x))
            .map(|_| FeOk::Unit),
        GetQueueNum => fe.get_queue_num().map(FeOk::U64),
        SetVringEnable { idx, num } => {
            if *num > 1 {
                return None;
            }
            fe.set_vring_enable(*idx as usize, *num == 1).map(|_| FeOk::Unit)
        }
        GetConfig { off, size, flags, payload } => {
            let fl = VhostUserConfigFlags::from_bits(*flags)?;
            fe.get_config(*off, *size, fl, payload)
                .map(|(c, p)| FeOk::Config(c.offset, c.size, c.flags, p))
        }
        SetConfig { off, flags, payload } => {
            let fl = VhostUserConfigFlags::from_bits(*flags)?;
            fe.set_config(*off, fl, payload).map(|_| FeOk::Unit)
        }
        SetBackendReqFd => fe.set_backend_request_fd(&lent.files[0]).map(|_| FeOk::Unit),
        GetInflightFd(i) => fe
            .get_inflight_fd(&VhostUserInflight::new(i.mmap_size, i.mmap_offset, i.num_queues, i.queue_size))
            .map(|(r, f)| FeOk::Inflight(inflight_of(&r), f)),
        SetInflightFd(i) => fe
            .set_inflight_fd(
                &VhostUserInflight::new(i.mmap_size, i.mmap_offset, i.num_queues, i.queue_size),
                lent.files.first().map(|f| f.as_raw_fd()).unwrap_or(-1),
            )
            .map(|_| FeOk::Unit),
        GpuSetSocket => return None,
        ResetDevice => fe.reset_device().map(|_| FeOk::Unit),
        GetMaxMemSlots => fe.get_max_mem_slots().map(FeOk::U64),
        AddMemReg(r) => fe
            .add_mem_region(&VhostUserMemoryRegionInfo {
                guest_phys_addr: r.gpa,
                memory_size: r.size,
                userspace_addr: r.uva,
                mmap_offset: r.off,
                mmap_handle: lent.files.first().map(|f| f.as_raw_fd()).unwrap_or(-1),
            })
            .map(|_| FeOk::Unit),
        RemMemReg(r) => fe
            .remove_mem_region(&VhostUserMemoryRegionInfo {
                guest_phys_addr: r.gpa,
                memory_size: r.size,
                userspace_addr: r.uva,
                mmap_offset: r.off,
                mmap_handle: -1,
            })
            .map(|_| FeOk::Unit),
        GetSharedObject(u) => fe
            .get_shared_object(&VhostUserSharedMsg {
                uuid: uuid::Uuid::from_bytes(*u),
            })
            .map(FeOk::File),
        SetDeviceStateFd { dir, phase } => {
            let d = match dir {
                0 => VhostTransferStateDirection::SAVE,
                1 => VhostTransferStateDirection::LOAD,
                _ => return None,
            };
            if *phase != 0 {
                return None;
            }
            // the API consumes an OwnedFd: give it a duplicate of the lent file
            let dup: OwnedFd = lent.files[0].try_clone().expect("dup").into();
            fe.set_device_state_fd(d, VhostTransferStatePhase::STOPPED, dup).map(FeOk::OptFile)
        }
        CheckDeviceState => fe.check_device_state().map(|_| FeOk::Unit),
        GetShmemConfig => fe
            .get_shmem_config()
            .map(|c| FeOk::Shmem(c.nregions, c.memory_sizes.to_vec())),
    };
    Some(r)
}

// ------------------------------------------------------------------------------------------
// frontend-side recording handler (backend-initiated requests)
// ------------------------------------------------------------------------------------------

pub struct BCall {
    pub req: BReq,
    /// duplicate of the lent descriptor, for identity checks
    pub file: Option<File>,
    pub seq: u64,
}

#[derive(Default)]
pub struct FrRecMut {
    pub calls: Vec<BCall>,
    pub scripts: Vec<Script>,
}

impl FrRecMut {
    fn push(&mut self, req: BReq, fd: Option<RawFd>) -> HandlerResult<u64> {
        let s = self.scripts.get(self.calls.len()).cloned().unwrap_or_default();
        let file = fd.map(|fd| {
            // SAFETY: dup of a descriptor lent for the duration of the call.
            let d = unsafe { libc::dup(fd) };
            assert!(d >= 0);
            unsafe { File::from_raw_fd(d) }
        });
        self.calls.push(BCall { req, file, seq: 0 });
        if s.fail {
            if s.errno != 0 {
                Err(std::io::Error::from_raw_os_error(s.errno))
            } else {
                Err(std::io::Error::other("scripted failure without errno"))
            }
        } else {
            Ok(s.val)
        }
    }
}

fn mmap_of(m: &VhostUserMMap) -> MMap {
    MMap {
        shmid: m.shmid,
        fd_offset: m.fd_offset,
        shm_offset: m.shm_offset,
        len: m.len,
        flags: m.flags,
    }
}

impl VhostUserFrontendReqHandlerMut for FrRecMut {
    fn handle_config_change(&mut self) -> HandlerResult<u64> {
        self.push(BReq::ConfigChange, None)
    }
    fn shared_object_add(&mut self, uuid: &VhostUserSharedMsg) -> HandlerResult<u64> {
        self.push(BReq::SharedObjectAdd(*uuid.uuid.as_bytes()), None)
    }
    fn shared_object_remove(&mut self, uuid: &VhostUserSharedMsg) -> HandlerResult<u64> {
        self.push(BReq::SharedObjectRemove(*uuid.uuid.as_bytes()), None)
    }
    fn shared_object_lookup(&mut self, uuid: &VhostUserSharedMsg, fd: &dyn AsRawFd) -> HandlerResult<u64> {
        self.push(BReq::SharedObjectLookup(*uuid.uuid.as_bytes()), Some(fd.as_raw_fd()))
    }
    fn shmem_map(&mut self, req: &VhostUserMMap, fd: &dyn AsRawFd) -> HandlerResult<u64> {
        self.push(BReq::ShmemMap(mmap_of(req)), Some(fd.as_raw_fd()))
    }
    fn shmem_unmap(&mut self, req: &VhostUserMMap) -> HandlerResult<u64> {
        self.push(BReq::ShmemUnmap(mmap_of(req)), None)
    }
}

#[derive(Default)]
pub struct FrRecDirect {
    pub inner: Mutex<FrRecMut>,
}

impl VhostUserFrontendReqHandler for FrRecDirect {
    fn handle_config_change(&self) -> HandlerResult<u64> {
        fwd!(self, handle_config_change())
    }
    fn shared_object_add(&self, u: &VhostUserSharedMsg) -> HandlerResult<u64> {
        fwd!(self, shared_object_add(u))
    }
    fn shared_object_remove(&self, u: &VhostUserSharedMsg) -> HandlerResult<u64> {
        fwd!(self, shared_object_remove(u))
    }
    fn shared_object_lookup(&self, u: &VhostUserSharedMsg, fd: &dyn AsRawFd) -> HandlerResult<u64> {
        fwd!(self, shared_object_lookup(u, fd))
    }
    fn shmem_map(&self, r: &VhostUserMMap, fd: &dyn AsRawFd) -> HandlerResult<u64> {
        fwd!(self, shmem_map(r, fd))
    }
    fn shmem_unmap(&self, r: &VhostUserMMap) -> HandlerResult<u64> {
        fwd!(self, shmem_unmap(r))
    }
}

/// Issue a backend-initiated request through the real `Backend` proxy.
pub fn be_call(be: &Backend, req: &BReq, fd: Option<&File>) -> HandlerResult<u64> {
    let uu = |u: &[u8; 16]| VhostUserSharedMsg {
        uuid: uuid::Uuid::from_bytes(*u),
    };
    let mm = |m: &MMap| VhostUserMMap {
        shmid: m.shmid,
        padding: [0; 7],
        fd_offset: m.fd_offset,
        shm_offset: m.shm_offset,
        len: m.len,
        flags: m.flags,
    };
    match req {
        BReq::ConfigChange => be.handle_config_change(),
        BReq::SharedObjectAdd(u) => be.shared_object_add(&uu(u)),
        BReq::SharedObjectRemove(u) => be.shared_object_remove(&uu(u)),
        BReq::SharedObjectLookup(u) => be.shared_object_lookup(&uu(u), fd.unwrap()),
        BReq::ShmemMap(m) => be.shmem_map(&mm(m), fd.unwrap()),
        BReq::ShmemUnmap(m) => be.shmem_unmap(&mm(m)),
    }
}
