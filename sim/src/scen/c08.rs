//! C08: framing is independent of segmentation; truncation is an error.

use std::os::unix::io::AsRawFd;

use super::client::{self, kind_typ};
use super::server;
use super::*;
use crate::sched::{FaultCfg, Sim};

pub fn def() -> PropDef {
    PropDef {
        id: "C08",
        run,
        quick_runs: 48_000,
        thorough_runs: 2_000_000,
        level: "fault_enumeration",
        rule: "index%8: 0 = two-segment split of a canonical request of every type at every byte offset against the backend request server (enumerated), 1 = stream cut at every byte offset of every request type followed by close (enumerated), 2 = seeded server sessions with random multi-way segmentation, peer-side yields between segments and receiver-side short reads (plus cut+close in a third of them), 3 = seeded server sessions with sender-side partial writes and retry-class errnos on the server's replies, 4 = real Frontend <-> real server sessions with short reads and partial writes on both sockets (frontend reply/ack receive paths and request send path), 5 = real Backend proxy <-> real FrontendReqHandler with short I/O on both sockets, 6 = one client call (Frontend / Backend proxy / GpuBackend, type swept) whose conformant reply is delivered in random segments, or cut at a random byte and followed by close (must be an error, never a hang, never a value), 7 = large GPU payloads through a non-blocking socket with a minimal kernel send buffer (kernel-made partial writes and EAGAIN); distinct = distinct (workload tape, interleaving, fault trace); non-trivial = a split, cut or I/O fault was applied",
        assumptions: ASSUME,
        real: REAL_W,
        stubs: STUB_W,
        sweep_size: |_| server::c08_server_space().len() as u64,
        sweep_desc: "backend request server as receiver: every (request type, 2-split offset) and every (request type, cut offset) of the canonical encoding of each of the 31 request types",
        panic_prop: "C08",
    }
}

fn run(sim: &Sim, cfg: &RunCfg) -> RunOut {
    // the property says "in bounded time" / "without blocking forever": a run that is still going
    // after the step cap (orders of magnitude above any run on the unchanged tree) is a violation
    sim.st().cap_clause = Some("livelock");
    sim.choose_policy();
    let sub = cfg.index % 8;
    let i = cfg.index / 8;
    match sub {
        0..=3 => {
            let (desc, key) = server::c08_server_run(sim, cfg, sub, i);
            RunOut {
                desc,
                nontrivial: true,
                sweep_key: key,
            }
        }
        4 => {
            let sess = sim.with_w(|t| {
                super::fe::gen_fe_session(
                    t,
                    &super::fe::FeGen {
                        max_items: 8,
                        fail_rate: 0,
                        forced_type: Some(i % server::N_FREQ_TYPES),
                        local_reject_rate: 0,
                        closed_gate_rate: 0,
                    },
                )
            });
            let d = format!("short I/O both ways: {}", super::fe::describe(&sess));
            crate::runner::set_desc(&d);
            let res = super::fe::run_fe_session(sim, &sess, true);
            let j = super::fe::Judge {
                prop: "C08",
                c01: true,
                c02: true,
                c03: true,
            };
            if let Err(v) = super::fe::judge_fe(&j, &sess, &res) {
                sim.violation(v);
            }
            RunOut {
                desc: d,
                nontrivial: true,
                sweep_key: None,
            }
        }
        5 => {
            let sess = sim.with_w(|t| super::breq::gen_bsession(t, Some(i % super::breq::N_BREQ), true));
            let d = format!("short I/O both ways: {}", super::breq::describe(&sess));
            crate::runner::set_desc(&d);
            let res = super::breq::run_bsession(sim, &sess, true);
            if let Err(v) = super::breq::judge_b("C08", sim, &sess, &res, true) {
                sim.violation(v);
            }
            RunOut {
                desc: d,
                nontrivial: true,
                sweep_key: None,
            }
        }
        6 => {
            let (kind, typ) = kind_typ(i);
            let mut case = sim.with_w(|t| client::gen_case(t, kind, typ));
            case.answerless_close = false;
            let (good, nf) = sim.with_w(|t| client::correct_reply(t, &case.target));
            let (bytes, cuts, mutation) = sim.with_w(|t| {
                if t.chance(1, 2) && good.len() > 1 {
                    let n = t.draw(good.len() as u64) as usize;
                    let c = server::gen_cuts(t, n.max(2), 5);
                    (good[..n].to_vec(), c, "truncate")
                } else {
                    let mode = 1 + t.draw(5);
                    let c = server::gen_cuts(t, good.len(), mode);
                    (good.clone(), c, "none")
                }
            });
            case.reply = Some(client::Reply {
                bytes,
                fds_first: nf,
                fds_second: 0,
                cuts,
                mutation,
            });
            sim.st().faults = FaultCfg {
                short_recv: 300,
                only: vec!["client"],
                ..Default::default()
            };
            let d = client::describe(&case);
            crate::runner::set_desc(&d);
            let res = client::run_case(sim, &case);
            if let Err(v) = client::judge_case("C08", &case, &res, true) {
                sim.violation(v);
            }
            RunOut {
                desc: d,
                nontrivial: true,
                sweep_key: None,
            }
        }
        _ => {
            // kernel-made partial writes: non-blocking socket, minimal SO_SNDBUF, big payload
            let typ = if i % 2 == 0 { 7 } else { 5 };
            let mut case = sim.with_w(|t| client::gen_case(t, 2, typ));
            case.answerless_close = false;
            case.reply = None;
            let d = format!("non-blocking tiny send buffer: {}", client::describe(&case));
            crate::runner::set_desc(&d);
            let res = client::run_case_opts(sim, &case, true);
            if let Err(v) = client::judge_case("C08", &case, &res, true) {
                sim.violation(v);
            }
            RunOut {
                desc: d,
                nontrivial: true,
                sweep_key: None,
            }
        }
    }
}

#[allow(dead_code)]
fn _u(_: &dyn AsRawFd) {}
