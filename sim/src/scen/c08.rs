//! C08: framing is independent of segmentation; truncation is an error.

use super::server;
use super::*;
use crate::sched::Sim;

pub fn def() -> PropDef {
    PropDef {
        id: "C08",
        run,
        quick_runs: 40_000,
        thorough_runs: 1_500_000,
        level: "fault_enumeration",
        rule: "index%4: 0 = two-segment split of a canonical request of every type at every byte offset (enumerated), 1 = stream cut at every byte offset of every request type followed by close (enumerated), 2 = seeded sessions with random multi-way segmentation, peer-side yields between segments and receiver-side short reads (plus cut+close in a third of them), 3 = seeded sessions with sender-side partial writes and retry-class errnos on the server's replies; distinct = distinct (workload tape, interleaving, fault trace); non-trivial = a split, cut or I/O fault was applied",
        assumptions: ASSUME,
        real: REAL_W,
        stubs: STUB_W,
        sweep_size: |_| server::c08_server_space().len() as u64,
        sweep_desc: "backend request server as receiver: every (request type, 2-split offset) and every (request type, cut offset) of the canonical encoding of each of the 31 request types",
        panic_prop: "C05",
    }
}

fn run(sim: &Sim, cfg: &RunCfg) -> RunOut {
    sim.choose_policy();
    let sub = cfg.index % 4;
    let (desc, key) = server::c08_server_run(sim, cfg, sub, cfg.index / 4);
    RunOut {
        desc,
        nontrivial: true,
        sweep_key: key,
    }
}
