//! Property definitions built from the wire engines: C01, C05, C06, C07, C09.

use super::client::{self, kind_typ, N_CLIENT_TYPES};
use super::hostile;
use super::server::{self, N_FREQ_TYPES};
use super::*;
use crate::sched::Sim;

// ------------------------------------------------------------------------------------------ C05
pub fn def_c05() -> PropDef {
    PropDef {
        id: "C05",
        run: run_c05,
        quick_runs: 40_000,
        thorough_runs: 2_000_000,
        level: "exploration",
        rule: "index%4 != 3: seeded hostile byte streams to the real BackendReqHandler: after a none/partial/full negotiation prefix, 1..6 messages each derived from a valid or rule-breaking request with mutated code/flags/size/body, 0..=40 descriptors on the first byte and sometimes on a later byte, random segmentation, optional teardown after message k; index%4 == 3: well-typed control messages with adversarial 64-bit values to a live daemon (see daemon scenario); oracle: no panic/overflow (binary built with overflow checks and debug assertions), every handler invocation matches a well-formed, protocol-valid, gate-open message of the stream with exactly the prescribed descriptors; distinct = distinct (workload tape, interleaving, fault trace); non-trivial = stream has >= 2 messages",
        assumptions: ASSUME,
        real: REAL_W,
        stubs: STUB_W,
        sweep_size: no_sweep,
        sweep_desc: "",
        panic_prop: "C05",
    }
}

fn run_c05(sim: &Sim, cfg: &RunCfg) -> RunOut {
    // the property says "in bounded time" / "without blocking forever": a run that is still going
    // after the step cap (orders of magnitude above any run on the unchanged tree) is a violation
    sim.st().cap_clause = Some("livelock");
    sim.choose_policy();
    if cfg.index % 4 == 3 {
        if let Some(f) = super::DAEMON_C05.get() {
            return f(sim, cfg);
        }
    }
    let s = sim.with_w(|t| hostile::gen_hostile(t, false));
    let d = hostile::describe(&s);
    crate::runner::set_desc(&d);
    let res = hostile::run_hostile(sim, &s);
    if let Err(v) = hostile::judge_hostile("C05", &s, &res) {
        sim.violation(v);
    }
    RunOut {
        desc: d,
        nontrivial: s.msgs.len() >= 2,
        sweep_key: None,
    }
}

// ------------------------------------------------------------------------------------------ C06
pub fn def_c06() -> PropDef {
    PropDef {
        id: "C06",
        run: run_c06,
        quick_runs: 40_000,
        thorough_runs: 2_000_000,
        level: "exploration",
        rule: "index%3 != 2: one client call (request type swept by index over 31 Frontend operations, 5 Backend-proxy requests, 12 GpuBackend requests) against a raw peer that computes the specification's reply, applies one mutation (code, a flag bit, version, size field, body bytes, truncation, extension, 0..3 descriptors on the first or a later segment, random bytes, non-zero status) or none, writes it in random segments and closes; index%3 == 2: hostile byte streams with 0..=40 descriptors to the real FrontendReqHandler; oracle: Ok only if the bytes satisfy an independent is-reply-for predicate and the value equals the decoded fields, an unmutated reply must be accepted, handler invoked only for well-formed requests with exactly the prescribed descriptors, never a panic; non-trivial = a mutation was applied or stream has >= 2 messages",
        assumptions: ASSUME,
        real: REAL_W,
        stubs: STUB_W,
        sweep_size: |_| N_CLIENT_TYPES,
        sweep_desc: "every client request type (31 + 5 + 12) is the target of some run",
        panic_prop: "C06",
    }
}

fn run_c06(sim: &Sim, cfg: &RunCfg) -> RunOut {
    // the property says "in bounded time" / "without blocking forever": a run that is still going
    // after the step cap (orders of magnitude above any run on the unchanged tree) is a violation
    sim.st().cap_clause = Some("livelock");
    sim.choose_policy();
    if cfg.index % 3 == 2 {
        let s = sim.with_w(|t| hostile::gen_hostile(t, true));
        let d = hostile::describe(&s);
        crate::runner::set_desc(&d);
        let res = hostile::run_hostile(sim, &s);
        if let Err(v) = hostile::judge_hostile("C06", &s, &res) {
            sim.violation(v);
        }
        return RunOut {
            desc: d,
            nontrivial: s.msgs.len() >= 2,
            sweep_key: None,
        };
    }
    let (kind, typ) = kind_typ(cfg.index / 3);
    let case = sim.with_w(|t| client::gen_case(t, kind, typ));
    let d = client::describe(&case);
    crate::runner::set_desc(&d);
    let res = client::run_case(sim, &case);
    if let Err(v) = client::judge_case("C06", &case, &res, false) {
        sim.violation(v);
    }
    RunOut {
        desc: d,
        nontrivial: case.reply.as_ref().map(|r| r.mutation != "none").unwrap_or(true),
        sweep_key: Some((cfg.index / 3) % N_CLIENT_TYPES),
    }
}

// ------------------------------------------------------------------------------------------ C09
pub fn def_c09() -> PropDef {
    PropDef {
        id: "C09",
        run: run_c09,
        quick_runs: 40_000,
        thorough_runs: 2_000_000,
        level: "exploration",
        rule: "descriptor-heavy workloads, index%8 >= 4: live-daemon histories (ring configuration with kick/call replacement and table replacement; dirty-log installation; memory-table histories with failing mmaps; adversarial control messages) whose descriptors are owned by vhost-user-backend; otherwise index%4: 0 = hostile streams to BackendReqHandler, 1 = hostile streams to FrontendReqHandler (0..=40 descriptors of three kinds on first/later bytes, on requests that take none, beyond the 32-descriptor limit, teardown after message k), 2 = client calls with mutated replies carrying 0..3 descriptors, 3 = well-formed server sessions with truncation at a random byte; oracle: /proc/self/fd (number, target) before the scenario equals the table after all endpoints, handlers and harness-owned files are dropped, and every descriptor delivered to a handler is still open when the harness drops it (the same epilogue runs after every run of every other check); non-trivial = at least one descriptor crossed the socket",
        assumptions: ASSUME,
        real: REAL_W,
        stubs: STUB_W,
        sweep_size: no_sweep,
        sweep_desc: "",
        panic_prop: "C09",
    }
}

fn run_c09(sim: &Sim, cfg: &RunCfg) -> RunOut {
    sim.choose_policy();
    // descriptors that reach the daemon: kick/call/err eventfds, region files, the dirty-log
    // file, the backend-request socket (ownership transfer inside vhost-user-backend)
    let sub = RunCfg {
        prop: cfg.prop,
        tier: cfg.tier,
        seed: cfg.seed,
        index: 1_000_000 + cfg.index / 8,
    };
    match cfg.index % 8 {
        4 => return super::c14::run(sim, &sub),
        5 => return super::c15::run(sim, &sub),
        6 => return super::c13::run(sim, &sub),
        7 => return super::c05d::run(sim, &sub),
        _ => {}
    }
    let d;
    match cfg.index % 4 {
        0 | 1 => {
            let s = sim.with_w(|t| hostile::gen_hostile(t, cfg.index % 4 == 1));
            d = hostile::describe(&s);
            crate::runner::set_desc(&d);
            let res = hostile::run_hostile(sim, &s);
            if let Err(v) = hostile::judge_hostile("C09", &s, &res) {
                sim.violation(v);
            }
        }
        2 => {
            let (kind, typ) = kind_typ(cfg.index / 4);
            let case = sim.with_w(|t| client::gen_case(t, kind, typ));
            d = client::describe(&case);
            crate::runner::set_desc(&d);
            let res = client::run_case(sim, &case);
            if let Err(v) = client::judge_case("C09", &case, &res, false) {
                sim.violation(v);
            }
        }
        _ => {
            let sess = sim.with_w(|t| {
                server::gen_session(
                    t,
                    &server::GenOpts {
                        max_items: 8,
                        fail_rate: 20,
                        seg_mode: Some(9),
                        forced_type: Some([4u64, 10, 11, 12, 19, 21, 22, 25, 28, 5][(cfg.index / 4 % 10) as usize]),
                        truncate: true,
                    },
                )
            });
            d = server::describe(&sess);
            crate::runner::set_desc(&d);
            let res = server::run_session(sim, &sess);
            if let Err(v) = server::judge("C09", &sess, &res) {
                sim.violation(v);
            }
        }
    }
    RunOut {
        desc: d,
        nontrivial: true,
        sweep_key: None,
    }
}

// ------------------------------------------------------------------------------------------ C01
pub fn def_c01() -> PropDef {
    PropDef {
        id: "C01",
        run: run_c01,
        quick_runs: 40_000,
        thorough_runs: 2_000_000,
        level: "exploration",
        rule: "weakest fit for this technique (inputs x configurations, no schedule or fault in the quantifier): index%4: 0 = real Frontend API sessions, bytes on the wiretap decoded by the independent codec and compared field by field with the call's arguments, header flags and descriptor placement; 1 = raw-peer sessions against the real backend server: every reply/ack byte compared with the spec encoding and every spec-encoded request decoded by the crate to the encoded values; 2 = single client calls (Frontend, Backend proxy, GpuBackend; type swept) read by the raw peer and answered with a conformant reply that must decode to the encoded values; 3 = Backend proxy <-> FrontendReqHandler histories with wiretap on both directions; segmentation and short I/O on, errno faults off; distinct = distinct (workload tape, interleaving, fault trace); non-trivial: always (every run encodes and decodes at least one message with drawn field values)",
        assumptions: ASSUME,
        real: REAL_W,
        stubs: STUB_W,
        sweep_size: |_| N_CLIENT_TYPES + N_FREQ_TYPES,
        sweep_desc: "every message type of the four channels: 31 frontend requests (as encoded by Frontend and as decoded by the server, with their replies/acks), 5 backend-initiated requests and acks, 12 GPU requests and 4 GPU replies",
        panic_prop: "C01",
    }
}

fn run_c01(sim: &Sim, cfg: &RunCfg) -> RunOut {
    sim.choose_policy();
    let i = cfg.index / 4;
    let d;
    let key;
    match cfg.index % 4 {
        0 => {
            let sess = sim.with_w(|t| {
                super::fe::gen_fe_session(
                    t,
                    &super::fe::FeGen {
                        max_items: 8,
                        fail_rate: 0,
                        forced_type: Some(i % N_FREQ_TYPES),
                        local_reject_rate: 0,
                        closed_gate_rate: 0,
                    },
                )
            });
            d = super::fe::describe(&sess);
            crate::runner::set_desc(&d);
            let res = super::fe::run_fe_session(sim, &sess, i % 2 == 1);
            let j = super::fe::Judge {
                prop: "C01",
                c01: true,
                c02: false,
                c03: false,
            };
            if let Err(v) = super::fe::judge_fe(&j, &sess, &res) {
                sim.violation(v);
            }
            key = N_CLIENT_TYPES + i % N_FREQ_TYPES;
        }
        1 => {
            let sess = sim.with_w(|t| {
                server::gen_session(
                    t,
                    &server::GenOpts {
                        max_items: 8,
                        fail_rate: 15,
                        seg_mode: Some(if i % 2 == 1 { 9 } else { 0 }),
                        forced_type: Some(i % N_FREQ_TYPES),
                        truncate: false,
                    },
                )
            });
            d = server::describe(&sess);
            crate::runner::set_desc(&d);
            let res = server::run_session(sim, &sess);
            if let Err(v) = server::judge("C01", &sess, &res) {
                sim.violation(v);
            }
            key = N_CLIENT_TYPES + i % N_FREQ_TYPES;
        }
        2 => {
            let (kind, typ) = kind_typ(i);
            let mut case = sim.with_w(|t| client::gen_case(t, kind, typ));
            // conformant answers only
            case.answerless_close = false;
            let (good, nf) = sim.with_w(|t| client::correct_reply(t, &case.target));
            let cuts = sim.with_w(|t| server::gen_cuts(t, good.len(), 9 % 6));
            case.reply = Some(client::Reply {
                bytes: good,
                fds_first: nf,
                fds_second: 0,
                cuts,
                mutation: "none",
            });
            d = client::describe(&case);
            crate::runner::set_desc(&d);
            let res = client::run_case(sim, &case);
            if let Err(v) = client::judge_case("C01", &case, &res, true) {
                sim.violation(v);
            }
            key = i % N_CLIENT_TYPES;
        }
        _ => {
            let sess = sim.with_w(|t| super::breq::gen_bsession(t, Some(i % super::breq::N_BREQ), true));
            d = super::breq::describe(&sess);
            crate::runner::set_desc(&d);
            let res = super::breq::run_bsession(sim, &sess, i % 2 == 1);
            if let Err(v) = super::breq::judge_b("C01", sim, &sess, &res, true) {
                sim.violation(v);
            }
            key = N_FREQ_TYPES + i % super::breq::N_BREQ;
        }
    }
    RunOut {
        desc: d,
        nontrivial: true,
        sweep_key: Some(key),
    }
}
