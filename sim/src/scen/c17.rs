//! C17: kicks are routed to the owning worker with the ring's rank as event id; custom
//! listener ids are delivered unchanged and never confused with queues or the exit event.

use std::os::unix::io::AsRawFd;
use std::sync::{Arc, Mutex};

use vhost::vhost_user::Listener;
use vhost::VhostBackend;
use vhost_user_backend::{VringMutex, VringRwLock, VringT};
use vm_memory::{GuestMemoryAtomic, GuestMemoryMmap};
use vmm_sys_util::eventfd::EventFd;

use super::daemon::*;
use super::*;
use crate::sched::{Sim, Violation};

pub fn def() -> PropDef {
    PropDef {
        id: "C17",
        run,
        quick_runs: 16000,
        thorough_runs: 1_500_000,
        level: "exploration",
        rule: "mostly a configuration sweep riding on the simulator: queues-per-thread configuration = assignment number (index mod sweep size) of 1..=4 queues to 1..=3 masks over 5 bit positions (sparse, interleaved, overlapping masks, bits beyond the queue count) for index below the sweep size, random up to 6 queues beyond; every queue gets a distinct size, is started, enabled and kicked in a drawn order while the workers run concurrently; custom listeners with ids from {num_queues-1, num_queues, num_queues+1, 255, 65535, 65536+k, 2^32+k} are registered on drawn workers and fired; oracle: reference routing function (owner = first mask containing q, event id = number of lower set bits, vrings[event id] is queue q), listener accepted iff id > num_queues and delivered with exactly the registered id on its worker, no worker terminates; non-trivial = >= 2 queues or a listener",
        assumptions: ASSUME,
        real: REAL_D,
        stubs: STUB_D,
        sweep_size: |_| sweep_configs().len() as u64,
        sweep_desc: "all assignments of 1..=4 queues to 1..=3 worker masks over 5 bit positions (each mask non-empty)",
        panic_prop: "C17",
    }
}

/// (num_queues, masks) for 1..=4 queues and 1..=3 masks over bit positions 0..5, non-empty masks.
pub fn sweep_configs() -> Vec<(usize, Vec<u64>)> {
    static C: std::sync::OnceLock<Vec<(usize, Vec<u64>)>> = std::sync::OnceLock::new();
    C.get_or_init(|| {
        let mut v = Vec::new();
        for nq in 1..=4usize {
            for m0 in 1..32u64 {
                v.push((nq, vec![m0]));
            }
            // two and three masks: a coarser lattice keeps the space enumerable per batch
            for m0 in [0b1u64, 0b10, 0b101, 0b1010, 0b11, 0b110, 0b1111, 0b10001, 0b11111] {
                for m1 in [0b1u64, 0b10, 0b100, 0b1010, 0b0101, 0b1100, 0b11110, 0b11111] {
                    v.push((nq, vec![m0, m1]));
                    for m2 in [0b1000u64, 0b11, 0b10100] {
                        v.push((nq, vec![m0, m1, m2]));
                    }
                }
            }
        }
        v
    })
    .clone()
}

fn run(sim: &Sim, cfg: &RunCfg) -> RunOut {
    sim.choose_policy();
    swarm_short_io(sim);
    let rw = sim.with_w(|t| t.chance(1, 2));
    if rw {
        run_v::<VringRwLock<GM<()>>>(sim, cfg)
    } else {
        run_v::<VringMutex<GM<()>>>(sim, cfg)
    }
}

fn owner_of(masks: &[u64], q: usize) -> Option<(usize, u16)> {
    for (t, m) in masks.iter().enumerate() {
        if (m >> q) & 1 == 1 {
            let rank = (m & ((1u64 << q) - 1)).count_ones() as u16;
            return Some((t, rank));
        }
    }
    None
}

fn run_v<V: VringT<GM<()>> + Clone + Send + Sync + 'static>(sim: &Sim, cfg: &RunCfg) -> RunOut {
    {
        let mut st = sim.st();
        st.cap_clause = Some("livelock");
        st.step_cap = 6000;
    }
    let space = sweep_configs();
    let low_mask = |n: usize| if n >= 64 { u64::MAX } else { (1u64 << n) - 1 };
    let (adapter, nq, masks, order, listeners, sweep_key) = sim.with_w(|t| {
        let adapter = if t.chance(1, 2) { Adapter::Mutex } else { Adapter::RwLock };
        let (nq, masks, key) = if (cfg.index as usize) < space.len() {
            let (n, m) = space[cfg.index as usize].clone();
            (n, m, Some(cfg.index))
        } else if t.chance(1, 12) {
            // the width of the mask type: 62..=64 queues, masks that use the top bits
            let n = *t.pick(&[62usize, 63, 64, 64]);
            let k = t.range(1, 3) as usize;
            let m: Vec<u64> = (0..k)
                .map(|_| match t.draw(7) {
                    0 => u64::MAX,
                    1 => 1u64 << 63,
                    2 => 0xffff_ffff_0000_0000,
                    3 => 0x0000_0000_ffff_ffff,
                    4 => 0xaaaa_aaaa_aaaa_aaaa,
                    5 => 0x5555_5555_5555_5555,
                    _ => t.raw() | 1u64 << 63,
                })
                .collect();
            (n, m, None)
        } else {
            let n = t.range(1, 6) as usize;
            let k = t.range(1, 3) as usize;
            let m: Vec<u64> = (0..k).map(|_| 1 + t.draw(255)).collect();
            (n, m, None)
        };
        // kick order: a permutation of the queues
        let mut order: Vec<usize> = (0..nq).collect();
        for i in (1..order.len()).rev() {
            let j = t.draw(i as u64 + 1) as usize;
            order.swap(i, j);
        }
        // custom listeners: (thread, id)
        let nl = t.draw(4) as usize;
        let mut ls = Vec::new();
        for _ in 0..nl {
            let th = t.draw(masks.len() as u64) as usize;
            let k = t.draw(8);
            let id = match t.draw(8) {
                0 => nq as u64 - 1,
                1 => nq as u64,
                2 => nq as u64 + 1,
                3 => 255,
                4 => 65535,
                5 => 65536 + k,
                6 => (1u64 << 32) + k,
                _ => nq as u64 + 2 + t.draw(1000),
            };
            ls.push((th, id));
        }
        (adapter, nq, masks, order, ls, key)
    });
    let desc0 = format!("adapter={adapter:?} vring={} queues={nq} masks={masks:x?} kick_order={order:?} listeners(thread,id)={listeners:?}", std::any::type_name::<V>().rsplit("::").next().unwrap_or(""));
    crate::runner::set_desc(&desc0);
    let viol = |clause: &str, keys: String, msg: String| -> ! { sim.violation(Violation::new("C17", clause, keys, msg)) };
    // a backend that supplies no exit events: id num_queues is still not available to listeners
    // (its workers cannot be asked to stop; the harness ends them through the epoll fault point)
    let no_exit = sim.with_w(|t| t.chance(1, 6));
    if no_exit {
        sim.probe("backend_without_exit_events");
    }
    let desc = format!("{desc0} exit_events={}", !no_exit);
    crate::runner::set_desc(&desc);
    let mut stub = StubMut::<V, ()>::new(
        StubCfg {
            num_queues: nq,
            queues_per_thread: masks.clone(),
            exit_events: !no_exit,
            ..Default::default()
        },
        sim,
    );
    let log = stub.log.clone();
    // listener descriptors are drained by the stub on every dispatch (level-triggered epoll)
    // (a listener's event is consumed when handle_event reports its id, also when only the low
    // 16 bits survive, so that a truncated id shows up as a wrong id and not as a livelock)
    let lfds: Arc<Mutex<Vec<(usize, u64, Arc<EventFd>)>>> = Arc::new(Mutex::new(Vec::new()));
    {
        let lf = lfds.clone();
        stub.on_dispatch = Some(Arc::new(move |d: &Dispatch| {
            for (th, id, f) in lf.lock().unwrap().iter() {
                if *th == d.thread_id && (*id as u16) == d.device_event {
                    let _ = f.read();
                }
            }
        }));
    }
    let mem = GuestMemoryAtomic::new(GuestMemoryMmap::<()>::new());
    let mut daemon = AnyDaemon::new(adapter, stub, mem);
    if daemon.epoll_handlers() != masks.len() {
        viol("worker_count", String::new(), format!("{} epoll handlers for {} masks", daemon.epoll_handlers(), masks.len()));
    }
    let path = sock_path();
    let mut listener = Listener::new(&path, true).expect("listener");
    let mut vmm = connect_and_start(sim, &mut daemon, &mut listener, &path, 64).expect("start");
    let offered = vmm.fe.get_features().expect("get_features");
    // without PROTOCOL_FEATURES every ring is enabled by SET_FEATURES
    vmm.fe.set_features(offered & !crate::spec::VHOST_USER_F_PROTOCOL_FEATURES).expect("set_features");
    if nq > 8 {
        sim.probe("queue_count_at_mask_width");
        sim.st().step_cap = 120_000;
    }
    // a queue is recognised inside handle_event by its size and its next-available index
    let size_of = |q: usize| 2u16 << (q % 7);
    let base_of = |q: usize| 100 + q as u16;
    let mut kickfds = Vec::new();
    for q in 0..nq {
        vmm.fe.set_vring_num(q, size_of(q)).expect("set_vring_num");
        vmm.fe.set_vring_base(q, base_of(q)).expect("set_vring_base");
        let fd = EventFd::new(libc::EFD_NONBLOCK).expect("eventfd");
        vmm.fe.set_vring_kick(q, &fd).expect("set_vring_kick");
        kickfds.push(fd);
    }
    sim.settle();
    // ---- custom listeners
    let mut accepted: Vec<(usize, u64, Arc<EventFd>)> = Vec::new();
    for (th, id) in &listeners {
        let fd = Arc::new(EventFd::new(libc::EFD_NONBLOCK).expect("eventfd"));
        let r = daemon.register_listener(*th, fd.as_raw_fd(), *id);
        let must_accept = *id > nq as u64;
        match (r.is_ok(), must_accept) {
            (true, false) => viol("reserved_listener_id_accepted", format!("id-nq={}", *id as i64 - nq as i64), format!("listener id {id} accepted although ids 0..={nq} are reserved for queues and the exit event")),
            (false, true) => {
                // refusing an id the handler interface cannot represent is not forbidden by the
                // property (it demands exact delivery of *accepted* ids)
                sim.probe("listener_id_refused");
            }
            (true, true) => {
                lfds.lock().unwrap().push((*th, *id, fd.clone()));
                accepted.push((*th, *id, fd));
            }
            (false, false) => sim.probe("reserved_listener_id_refused"),
        }
    }
    // ---- kicks, all workers concurrently
    for q in &order {
        crate::sched::point("guest.before_kick");
        kickfds[*q].write(1).expect("kick");
    }
    sim.settle();
    let seen_q = log.lock().unwrap().dispatches.len();
    for (_, _, fd) in &accepted {
        crate::sched::point("guest.before_listener_event");
        fd.write(1).expect("listener event");
    }
    sim.settle();
    let disp: Vec<Dispatch> = log.lock().unwrap().dispatches.clone();
    // queue events
    for q in 0..nq {
        let hits: Vec<&Dispatch> = disp[..seen_q].iter().filter(|d| d.ring.as_ref().map(|r| r.size == size_of(q) && r.next_avail == base_of(q)).unwrap_or(false)).collect();
        match owner_of(&masks, q) {
            None => {
                if !hits.is_empty() {
                    viol("dispatch_for_unowned_queue", format!("q{q}"), format!("queue {q} is in no mask but was dispatched: {hits:?}"));
                }
            }
            Some((t, rank)) => {
                if hits.is_empty() {
                    viol(
                        "kick_not_routed",
                        format!("masks{masks:x?}q{q}"),
                        format!("queue {q} (size {}) was kicked but no handle_event saw it; dispatches: {:?}", size_of(q), &disp[..seen_q]),
                    );
                }
                let nv = (masks[t] & low_mask(nq)).count_ones() as usize;
                for d in hits {
                    if d.thread_id != t || d.device_event != rank || d.nvrings != nv {
                        viol(
                            "wrong_route",
                            format!("masks{masks:x?}q{q}"),
                            format!("queue {q}: handled by thread {} as event {} with {} vrings; reference routing says thread {t}, event {rank}, {nv} vrings", d.thread_id, d.device_event, d.nvrings),
                        );
                    }
                }
            }
        }
    }
    for d in &disp[..seen_q] {
        if d.ring.is_none() {
            viol("spurious_event", format!("ev{}", d.device_event), format!("handle_event with event {} on thread {} during the queue phase", d.device_event, d.thread_id));
        }
    }
    // listener events: exactly the registered id, on the registered worker
    for (th, id, _) in &accepted {
        let ok = disp[seen_q..].iter().any(|d| d.thread_id == *th && d.device_event as u64 == *id);
        if !ok {
            let got: Vec<(usize, u16)> = disp[seen_q..].iter().map(|d| (d.thread_id, d.device_event)).collect();
            let class = if *id > 65535 { "id_above_u16" } else { "id" };
            viol(
                "listener_id_not_delivered",
                class.to_string(),
                format!("listener registered with id {id} on worker {th} fired, but handle_event was called with (thread, event) = {got:?}"),
            );
        }
    }
    for d in &disp[seen_q..] {
        if !accepted.iter().any(|(th, id, _)| d.thread_id == *th && d.device_event as u64 == *id) {
            viol(
                "listener_event_confused",
                format!("ev{}", d.device_event),
                format!("during the listener phase handle_event was called with thread {} event {} which is no registered listener", d.thread_id, d.device_event),
            );
        }
    }
    let dead: usize = masks.len() - sim.pending_tasks().iter().filter(|t| t.starts_with("worker")).count();
    if dead != 0 {
        viol("worker_terminated", String::new(), format!("{dead} worker(s) terminated during the run"));
    }
    drop(vmm);
    let _ = daemon.wait();
    if no_exit {
        sim.abort_workers();
        sim.settle();
    }
    drop(daemon);
    close_leaked_exit_consumers(&log);
    drop(listener);
    lfds.lock().unwrap().clear();
    RunOut {
        desc,
        nontrivial: nq >= 2 || !listeners.is_empty(),
        sweep_key,
    }
}
