//! C05 (scenario 2): well-typed control messages with adversarial field values against a live
//! daemon, followed by ring operations of the backend. Oracle: nothing panics, overflows or
//! hangs (daemon thread, workers, the caller), descriptors are conserved.

use std::os::unix::io::AsRawFd;
use std::os::unix::net::UnixStream;

use vhost::vhost_user::Listener;
use vhost_user_backend::{VringMutex, VringRwLock, VringT};
use vm_memory::{GuestMemoryAtomic, GuestMemoryMmap};

use super::daemon::*;
use super::server::{gen_region, gen_valid_req};
use super::*;
use crate::fdu;
use crate::rec::Lent;
use crate::rng::Tape;
use crate::sched::{self, Sim};
use crate::spec::{self, pf, FReq, Region, ReplyRule};

fn adversarial(t: &mut Tape, nrings: u32, mem: &[Region]) -> FReq {
    use FReq::*;
    let idx = |t: &mut Tape| match t.draw(9) {
        0..=4 => t.draw(nrings as u64) as u32,
        5 => nrings,
        6 => 255,
        7 => u32::MAX,
        _ => t.lattice32(),
    };
    let _unused = |t: &mut Tape| match t.draw(5) {
        0 => t.draw(nrings as u64) as u32,
        1 => nrings,
        2 => 255,
        3 => u32::MAX,
        _ => t.lattice32(),
    };
    // a user address near an existing region's edges, or anywhere
    let va = |t: &mut Tape, align: u64| -> u64 {
        let x = if mem.is_empty() || t.chance(1, 6) {
            t.lattice64()
        } else {
            let r = t.pick(mem).clone();
            match t.draw(8) {
                0 => r.uva,
                1 => r.uva.wrapping_add(r.size).wrapping_sub(align),
                2 => r.uva.wrapping_add(r.size),
                3 => r.uva.wrapping_sub(align),
                _ => r.uva.wrapping_add(t.draw(r.size.max(1))),
            }
        };
        x & !(align - 1)
    };
    match t.draw(16) {
        0 => SetFeatures(t.lattice64()),
        1 => SetProtocolFeatures(t.lattice64() | pf::REPLY_ACK),
        2 => SetVringNum { idx: idx(t), num: t.lattice32() },
        3 | 4 => SetVringAddr {
            idx: idx(t),
            flags: t.draw(2) as u32,
            desc: va(t, 16),
            used: va(t, 4),
            avail: va(t, 2),
            log: t.lattice64(),
        },
        5 => SetVringBase { idx: idx(t), num: t.lattice32() },
        6 => GetVringBase { idx: idx(t) },
        7 => SetVringKick { idx: idx(t) as u8, nofd: t.chance(1, 4) },
        8 => SetVringCall { idx: idx(t) as u8, nofd: t.chance(1, 4) },
        9 => SetVringErr { idx: idx(t) as u8, nofd: t.chance(1, 4) },
        10 => SetVringEnable { idx: idx(t), num: t.draw(2) as u32 },
        11 => {
            // memory table with page-aligned but otherwise adversarial geometry
            let n = t.range(1, 4);
            SetMemTable(
                (0..n)
                    .map(|_| {
                        let mut r = gen_region(t);
                        // sizes stay small enough to be backed by a real file: a file shorter
                        // than the mapping would make a later ring access SIGBUS, which is the
                        // frontend breaking its own promise, not a property of the library
                        r.size = match t.draw(4) {
                            0 => 0x1000,
                            1 => 0x10_000,
                            2 => r.size.clamp(1, 0x10_0000),
                            _ => (t.draw(64) + 1) * 0x1000,
                        };
                        r.gpa = r.gpa.min(u64::MAX - r.size) & !0xfff;
                        r.uva = r.uva.min(u64::MAX - r.size);
                        r.off = if t.chance(2, 3) { t.draw(4) * 0x1000 } else { r.off.min(0x20_0000) };
                        r
                    })
                    .collect(),
            )
        }
        12 => {
            let mut r = gen_region(t);
            r.size = (t.draw(16) + 1) * 0x1000;
            r.gpa = r.gpa.min(u64::MAX - r.size) & !0xfff;
            r.uva = r.uva.min(u64::MAX - r.size);
            r.off = t.draw(4) * 0x1000;
            AddMemReg(r)
        }
        13 => RemMemReg(if mem.is_empty() || t.chance(1, 2) { gen_region(t) } else { t.pick(mem).clone() }),
        14 => {
            let k = 17 + t.draw(2);
            gen_valid_req(t, k)
        }
        _ => {
            // sizes around what the current memory table needs, offsets aligned and not
            let needed = mem.iter().map(|r| (r.gpa.saturating_add(r.size) - 1) / 0x1000 / 8 + 1).max().unwrap_or(1);
            let size = match t.draw(6) {
                0 => needed.saturating_sub(1).max(1),
                1 => needed,
                2 => needed + 1,
                3 => 1,
                4 => 0x1000,
                _ => t.lattice64().max(1),
            };
            // the log file is always as long as the declared window (a shorter file would make
            // the backend's own log write SIGBUS: the frontend breaking its promise), so the
            // window is kept small enough to be backed for real
            let size = size.min(1 << 22);
            let off = match t.draw(4) {
                0 => 0,
                1 => 0x1000,
                2 => 0x10,
                _ => t.lattice64().min(0x10_0000),
            };
            SetLogBase { size, off }
        }
    }
}

/// Dirty-log prelude: a small memory table, ring 0 made live, then SET_LOG_BASE with a window
/// that ends exactly at, one byte before and one byte after the byte holding the last guest
/// page, then a region added on either side of the window's end. Every later kick makes the
/// backend write into the last page of every region, through the log arithmetic of bitmap.rs.
fn log_script(t: &mut Tape) -> Vec<FReq> {
    use FReq::*;
    let mut v = Vec::new();
    let n = t.range(1, 3);
    let mut regions = Vec::new();
    let mut next_page = t.draw(24);
    for i in 0..n {
        let pages = t.range(1, 20);
        regions.push(Region {
            gpa: next_page * 0x1000,
            size: pages * 0x1000,
            uva: 0x7f00_0000_0000 + i * 0x1000_0000,
            off: t.draw(2) * 0x1000,
        });
        next_page += pages + t.draw(9);
    }
    let last_page = regions.iter().map(|r| (r.gpa + r.size - 1) / 0x1000).max().unwrap();
    v.push(SetMemTable(regions));
    v.push(SetVringCall { idx: 0, nofd: false });
    v.push(SetVringKick { idx: 0, nofd: false });
    v.push(SetVringEnable { idx: 0, num: 1 });
    let needed = last_page / 8 + 1;
    let size = match t.draw(4) {
        0 => needed - 1,
        1 => needed,
        2 => needed + 1,
        _ => needed + t.draw(4),
    }
    .max(1);
    v.push(SetLogBase { size, off: t.draw(2) * 0x1000 });
    if t.chance(2, 3) {
        // a region mapped after the log was set: its last page is the last one the window
        // covers, the first one it does not, or somewhere near
        let pages = t.range(1, 9);
        let end_page = match t.draw(4) {
            0 => size * 8 - 1,
            1 => size * 8,
            2 => size * 8 + 1,
            _ => size * 8 - 1 - t.draw(8).min(size * 8 - 1),
        };
        let first = (end_page + 1).saturating_sub(pages).max(last_page + 1);
        if first <= end_page {
            v.push(AddMemReg(Region {
                gpa: first * 0x1000,
                size: (end_page + 1 - first) * 0x1000,
                uva: 0x7f80_0000_0000,
                off: 0,
            }));
        }
    }
    v
}

pub fn run(sim: &Sim, _cfg: &RunCfg) -> RunOut {
    swarm_short_io(sim);
    match sim.with_w(|t| t.draw(3)) {
        0 => run_v::<VringRwLock<GM<()>>, ()>(sim),
        1 => run_v::<VringMutex<GM<()>>, ()>(sim),
        // with a real dirty-log bitmap SET_LOG_BASE can succeed and the backend's writes go
        // through the page arithmetic of bitmap.rs
        _ => run_v::<VringRwLock<GM<vhost_user_backend::bitmap::BitmapMmapRegion>>, vhost_user_backend::bitmap::BitmapMmapRegion>(sim),
    }
}

fn read_reply(fd: i32) -> Option<(spec::Hdr, Vec<u8>)> {
    let (h, _) = fdu::raw_recv_exact(fd, spec::HDR, "vmm.recv").ok()?;
    if h.len() < spec::HDR {
        return None;
    }
    let hdr = spec::parse_hdr(&h);
    let (b, _) = fdu::raw_recv_exact(fd, hdr.size as usize, "vmm.recv").ok()?;
    if b.len() < hdr.size as usize {
        return None;
    }
    Some((hdr, b))
}

fn run_v<V, B>(sim: &Sim) -> RunOut
where
    V: VringT<GM<B>> + Clone + Send + Sync + 'static,
    B: vm_memory::bitmap::Bitmap + 'static + Clone + Send + Sync + vhost_user_backend::bitmap::BitmapReplace + vm_memory::mmap::NewBitmap,
{
    let nrings = 2u32;
    let (adapter, masks, nmsg) = sim.with_w(|t| {
        let adapter = if t.chance(1, 2) { Adapter::Mutex } else { Adapter::RwLock };
        let masks: Vec<u64> = if t.chance(1, 2) { vec![0b11] } else { vec![0b01, 0b10] };
        (adapter, masks, t.range(3, 12))
    });
    // only a backend with a real dirty-log bitmap gets the dirty-log prelude
    let with_log = std::any::TypeId::of::<B>() == std::any::TypeId::of::<vhost_user_backend::bitmap::BitmapMmapRegion>();
    let mut script: std::collections::VecDeque<FReq> =
        if with_log && sim.with_w(|t| t.chance(2, 3)) { sim.with_w(log_script).into() } else { Default::default() };
    let scripted = !script.is_empty();
    let nmsg = nmsg + script.len() as u64;
    let stub = StubMut::<V, B>::new(
        StubCfg {
            num_queues: nrings as usize,
            queues_per_thread: masks.clone(),
            protocol_features: pf::MQ | pf::REPLY_ACK | pf::RESET_DEVICE | pf::CONFIGURE_MEM_SLOTS | pf::CONFIG | pf::LOG_SHMFD,
            add_used_on_event: true,
            touch_memory_on_event: true,
            ..Default::default()
        },
        sim,
    );
    let log = stub.log.clone();
    let mem = GuestMemoryAtomic::new(GuestMemoryMmap::<B>::new());
    let mut daemon = AnyDaemon::new(adapter, stub, mem);
    let path = sock_path();
    let mut listener = Listener::new(&path, true).expect("listener");
    let mut trace: Vec<String> = Vec::new();
    let mut known_mem: Vec<Region> = Vec::new();
    let mut kept: Vec<Lent> = Vec::new();
    let mut kickfds: Vec<std::fs::File> = Vec::new();
    let mut sent = 0u64;
    'conn: while sent < nmsg {
        let sock = UnixStream::connect(&path).expect("connect");
        let fd = sock.as_raw_fd();
        sim.label_fd(fd, "vmm");
        daemon.start(&mut listener).expect("start");
        // negotiate so that every later message is answered (reply or ack) or ends the stream
        let pre = [
            FReq::GetFeatures.wire(false),
            FReq::SetProtocolFeatures(pf::REPLY_ACK | pf::CONFIGURE_MEM_SLOTS | pf::CONFIG | pf::MQ | pf::RESET_DEVICE | pf::LOG_SHMFD).wire(false),
            FReq::SetFeatures(spec::VHOST_USER_F_PROTOCOL_FEATURES).wire(false),
        ];
        for (i, m) in pre.iter().enumerate() {
            let _ = fdu::raw_send_segmented(fd, m, &[], &[], 0);
            if i == 0 {
                let _ = read_reply(fd);
            }
        }
        while sent < nmsg {
            sent += 1;
            let req = match script.pop_front() {
                Some(r) => r,
                None => sim.with_w(|t| adversarial(t, nrings, &known_mem)),
            };
            let lent = match &req {
                FReq::SetMemTable(rs) => {
                    // real, sufficiently large files where the geometry allows it
                    let mut l = Lent { files: Vec::new(), eventfd: None };
                    for r in rs {
                        // always at least as long as the mapping (rounded up to a page)
                        let len = (r.off.saturating_add(r.size) + 0xfff) & !0xfff;
                        l.files.push(fdu::memfd("advmem", len));
                    }
                    l
                }
                FReq::AddMemReg(r) => Lent {
                    files: vec![fdu::memfd("advmem", (r.off.saturating_add(r.size) + 0xfff) & !0xfff)],
                    eventfd: None,
                },
                FReq::SetLogBase { size, off } => Lent {
                    // a real log file, long enough for every byte the current table can index
                    files: vec![fdu::memfd("advlog", (off.saturating_add(*size) + 0x1fff) & !0xfff)],
                    eventfd: None,
                },
                r => Lent::for_req(r),
            };
            let fds = lent.wire_fds(&req);
            trace.push(format!("{req:x?}"));
            crate::runner::set_desc(&format!("live daemon adapter={adapter:?} masks={masks:?}: {}", trace.join("; ")));
            if fdu::raw_send_segmented(fd, &req.wire(true), &[], &fds, 0).is_err() {
                drop(sock);
                let _ = daemon.wait();
                continue 'conn;
            }
            if let FReq::SetVringKick { nofd: false, .. } = &req {
                // keep the guest side of the kick descriptor to raise kicks later
                if let Some(e) = &lent.eventfd {
                    // SAFETY: dup of a valid eventfd.
                    let d = unsafe { libc::dup(e.as_raw_fd()) };
                    if d >= 0 {
                        kickfds.push(unsafe { std::os::unix::io::FromRawFd::from_raw_fd(d) });
                    }
                }
            }
            let answered = read_reply(fd);
            kept.push(lent);
            match answered {
                None => {
                    // rejected: the daemon stopped serving and closed
                    drop(sock);
                    let _ = daemon.wait();
                    sim.probe("daemon_rejected_message");
                    continue 'conn;
                }
                Some((h, b)) => {
                    let ok = match req.reply_rule() {
                        ReplyRule::Reply => true,
                        ReplyRule::Ack => h.size == 8 && spec::g64(&b, 0) == 0,
                    };
                    if ok {
                        sim.probe("daemon_accepted_message");
                        match &req {
                            FReq::SetMemTable(rs) => known_mem = rs.clone(),
                            FReq::AddMemReg(r) => known_mem.push(r.clone()),
                            _ => {}
                        }
                    } else {
                        // acknowledged as failed: the daemon thread stops after a failed request
                        drop(sock);
                        let _ = daemon.wait();
                        sim.probe("daemon_rejected_message");
                        continue 'conn;
                    }
                }
            }
            // let the backend touch the rings with whatever was configured
            if (scripted && script.is_empty()) || sim.with_w(|t| t.chance(1, 3)) {
                for k in &kickfds {
                    sched::point("guest.before_kick");
                    fdu::eventfd_write(k.as_raw_fd(), 1);
                }
                sim.settle();
            }
        }
        drop(sock);
        let _ = daemon.wait();
    }
    for k in &kickfds {
        fdu::eventfd_write(k.as_raw_fd(), 1);
    }
    sim.settle();
    let desc = format!("live daemon adapter={adapter:?} masks={masks:?}: {}", trace.join("; "));
    crate::runner::set_desc(&desc);
    drop(daemon);
    close_leaked_exit_consumers(&log);
    drop(listener);
    drop(kept);
    log.lock().unwrap().backend_req.clear();
    RunOut {
        desc,
        nontrivial: true,
        sweep_key: None,
    }
}
