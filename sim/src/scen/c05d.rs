//! C05 (scenario 2): well-typed control messages with adversarial field values against a live
//! daemon, followed by ring operations of the backend. Oracle: nothing panics, overflows or
//! hangs (daemon thread, workers, the caller), descriptors are conserved.

use std::os::unix::io::AsRawFd;
use std::os::unix::net::UnixStream;

use vhost::vhost_user::Listener;
use vhost_user_backend::{VringMutex, VringRwLock, VringT};
use vm_memory::{GuestMemoryAtomic, GuestMemoryMmap};

use super::daemon::*;
use super::server::{gen_region, gen_valid_req};
use super::*;
use crate::fdu;
use crate::rec::Lent;
use crate::rng::Tape;
use crate::sched::{self, Sim};
use crate::spec::{self, pf, FReq, Region, ReplyRule};

fn adversarial(t: &mut Tape, nrings: u32, mem: &[Region]) -> FReq {
    use FReq::*;
    let idx = |t: &mut Tape| match t.draw(9) {
        0..=4 => t.draw(nrings as u64) as u32,
        5 => nrings,
        6 => 255,
        7 => u32::MAX,
        _ => t.lattice32(),
    };
    let _unused = |t: &mut Tape| match t.draw(5) {
        0 => t.draw(nrings as u64) as u32,
        1 => nrings,
        2 => 255,
        3 => u32::MAX,
        _ => t.lattice32(),
    };
    // a user address near an existing region's edges, or anywhere
    let va = |t: &mut Tape, align: u64| -> u64 {
        let x = if mem.is_empty() || t.chance(1, 6) {
            t.lattice64()
        } else {
            let r = t.pick(mem).clone();
            match t.draw(8) {
                0 => r.uva,
                1 => r.uva.wrapping_add(r.size).wrapping_sub(align),
                2 => r.uva.wrapping_add(r.size),
                3 => r.uva.wrapping_sub(align),
                _ => r.uva.wrapping_add(t.draw(r.size.max(1))),
            }
        };
        x & !(align - 1)
    };
    match t.draw(16) {
        0 => SetFeatures(t.lattice64()),
        1 => SetProtocolFeatures(t.lattice64() | pf::REPLY_ACK),
        2 => SetVringNum { idx: idx(t), num: t.lattice32() },
        3 | 4 => SetVringAddr {
            idx: idx(t),
            flags: t.draw(2) as u32,
            desc: va(t, 16),
            used: va(t, 4),
            avail: va(t, 2),
            log: t.lattice64(),
        },
        5 => SetVringBase { idx: idx(t), num: t.lattice32() },
        6 => GetVringBase { idx: idx(t) },
        7 => SetVringKick { idx: idx(t) as u8, nofd: t.chance(1, 4) },
        8 => SetVringCall { idx: idx(t) as u8, nofd: t.chance(1, 4) },
        9 => SetVringErr { idx: idx(t) as u8, nofd: t.chance(1, 4) },
        10 => SetVringEnable { idx: idx(t), num: t.draw(2) as u32 },
        11 => {
            // memory table with page-aligned but otherwise adversarial geometry
            let n = t.range(1, 4);
            SetMemTable(
                (0..n)
                    .map(|_| {
                        let mut r = gen_region(t);
                        r.size = match t.draw(4) {
                            0 => 0x1000,
                            1 => 0x10_000,
                            2 => r.size,
                            _ => (t.draw(64) + 1) * 0x1000,
                        };
                        r.gpa = r.gpa.min(u64::MAX - r.size) & !0xfff;
                        r.uva = r.uva.min(u64::MAX - r.size);
                        r.off = if t.chance(2, 3) { t.draw(4) * 0x1000 } else { r.off.min(u64::MAX - r.size) };
                        r
                    })
                    .collect(),
            )
        }
        12 => {
            let mut r = gen_region(t);
            r.size = (t.draw(16) + 1) * 0x1000;
            r.gpa = r.gpa.min(u64::MAX - r.size) & !0xfff;
            r.uva = r.uva.min(u64::MAX - r.size);
            r.off = t.draw(4) * 0x1000;
            AddMemReg(r)
        }
        13 => RemMemReg(if mem.is_empty() || t.chance(1, 2) { gen_region(t) } else { t.pick(mem).clone() }),
        14 => {
            let k = 17 + t.draw(2);
            gen_valid_req(t, k)
        }
        _ => {
            let size = t.lattice64().max(1);
            SetLogBase {
                size,
                off: t.lattice64().min(u64::MAX - size),
            }
        }
    }
}

pub fn run(sim: &Sim, _cfg: &RunCfg) -> RunOut {
    let rw = sim.with_w(|t| t.chance(1, 2));
    if rw {
        run_v::<VringRwLock<GM<()>>>(sim)
    } else {
        run_v::<VringMutex<GM<()>>>(sim)
    }
}

fn read_reply(fd: i32) -> Option<(spec::Hdr, Vec<u8>)> {
    let (h, _) = fdu::raw_recv_exact(fd, spec::HDR, "vmm.recv").ok()?;
    if h.len() < spec::HDR {
        return None;
    }
    let hdr = spec::parse_hdr(&h);
    let (b, _) = fdu::raw_recv_exact(fd, hdr.size as usize, "vmm.recv").ok()?;
    if b.len() < hdr.size as usize {
        return None;
    }
    Some((hdr, b))
}

fn run_v<V: VringT<GM<()>> + Clone + Send + Sync + 'static>(sim: &Sim) -> RunOut {
    let nrings = 2u32;
    let (adapter, masks, nmsg) = sim.with_w(|t| {
        let adapter = if t.chance(1, 2) { Adapter::Mutex } else { Adapter::RwLock };
        let masks: Vec<u64> = if t.chance(1, 2) { vec![0b11] } else { vec![0b01, 0b10] };
        (adapter, masks, t.range(3, 12))
    });
    let stub = StubMut::<V, ()>::new(
        StubCfg {
            num_queues: nrings as usize,
            queues_per_thread: masks.clone(),
            protocol_features: pf::MQ | pf::REPLY_ACK | pf::RESET_DEVICE | pf::CONFIGURE_MEM_SLOTS | pf::CONFIG | pf::LOG_SHMFD,
            add_used_on_event: true,
            ..Default::default()
        },
        sim,
    );
    let log = stub.log.clone();
    let mem = GuestMemoryAtomic::new(GuestMemoryMmap::<()>::new());
    let mut daemon = AnyDaemon::new(adapter, stub, mem);
    let path = sock_path();
    let mut listener = Listener::new(&path, true).expect("listener");
    let mut trace: Vec<String> = Vec::new();
    let mut known_mem: Vec<Region> = Vec::new();
    let mut kept: Vec<Lent> = Vec::new();
    let mut kickfds: Vec<std::fs::File> = Vec::new();
    let mut sent = 0u64;
    'conn: while sent < nmsg {
        let sock = UnixStream::connect(&path).expect("connect");
        let fd = sock.as_raw_fd();
        sim.label_fd(fd, "vmm");
        daemon.start(&mut listener).expect("start");
        // negotiate so that every later message is answered (reply or ack) or ends the stream
        let pre = [
            FReq::GetFeatures.wire(false),
            FReq::SetProtocolFeatures(pf::REPLY_ACK | pf::CONFIGURE_MEM_SLOTS | pf::CONFIG | pf::MQ | pf::RESET_DEVICE | pf::LOG_SHMFD).wire(false),
            FReq::SetFeatures(spec::VHOST_USER_F_PROTOCOL_FEATURES).wire(false),
        ];
        for (i, m) in pre.iter().enumerate() {
            let _ = fdu::raw_send_segmented(fd, m, &[], &[], 0);
            if i == 0 {
                let _ = read_reply(fd);
            }
        }
        while sent < nmsg {
            sent += 1;
            let req = sim.with_w(|t| adversarial(t, nrings, &known_mem));
            let lent = match &req {
                FReq::SetMemTable(rs) => {
                    // real, sufficiently large files where the geometry allows it
                    let mut l = Lent { files: Vec::new(), eventfd: None };
                    for r in rs {
                        let len = r.off.saturating_add(r.size).min(1 << 22);
                        l.files.push(fdu::memfd("advmem", len));
                    }
                    l
                }
                FReq::AddMemReg(r) => Lent {
                    files: vec![fdu::memfd("advmem", r.off.saturating_add(r.size).min(1 << 22))],
                    eventfd: None,
                },
                r => Lent::for_req(r),
            };
            let fds = lent.wire_fds(&req);
            trace.push(format!("{req:x?}"));
            crate::runner::set_desc(&format!("live daemon adapter={adapter:?} masks={masks:?}: {}", trace.join("; ")));
            if fdu::raw_send_segmented(fd, &req.wire(true), &[], &fds, 0).is_err() {
                drop(sock);
                let _ = daemon.wait();
                continue 'conn;
            }
            if let FReq::SetVringKick { nofd: false, .. } = &req {
                // keep the guest side of the kick descriptor to raise kicks later
                if let Some(e) = &lent.eventfd {
                    // SAFETY: dup of a valid eventfd.
                    let d = unsafe { libc::dup(e.as_raw_fd()) };
                    if d >= 0 {
                        kickfds.push(unsafe { std::os::unix::io::FromRawFd::from_raw_fd(d) });
                    }
                }
            }
            let answered = read_reply(fd);
            kept.push(lent);
            match answered {
                None => {
                    // rejected: the daemon stopped serving and closed
                    drop(sock);
                    let _ = daemon.wait();
                    sim.probe("daemon_rejected_message");
                    continue 'conn;
                }
                Some((h, b)) => {
                    let ok = match req.reply_rule() {
                        ReplyRule::Reply => true,
                        ReplyRule::Ack => h.size == 8 && spec::g64(&b, 0) == 0,
                    };
                    if ok {
                        sim.probe("daemon_accepted_message");
                        match &req {
                            FReq::SetMemTable(rs) => known_mem = rs.clone(),
                            FReq::AddMemReg(r) => known_mem.push(r.clone()),
                            _ => {}
                        }
                    } else {
                        // acknowledged as failed: the daemon thread stops after a failed request
                        drop(sock);
                        let _ = daemon.wait();
                        sim.probe("daemon_rejected_message");
                        continue 'conn;
                    }
                }
            }
            // let the backend touch the rings with whatever was configured
            if sim.with_w(|t| t.chance(1, 3)) {
                for k in &kickfds {
                    sched::point("guest.before_kick");
                    fdu::eventfd_write(k.as_raw_fd(), 1);
                }
                sim.settle();
            }
        }
        drop(sock);
        let _ = daemon.wait();
    }
    for k in &kickfds {
        fdu::eventfd_write(k.as_raw_fd(), 1);
    }
    sim.settle();
    let desc = format!("live daemon adapter={adapter:?} masks={masks:?}: {}", trace.join("; "));
    crate::runner::set_desc(&desc);
    drop(daemon);
    close_leaked_exit_consumers(&log);
    drop(listener);
    drop(kept);
    log.lock().unwrap().backend_req.clear();
    RunOut {
        desc,
        nontrivial: true,
        sweep_key: None,
    }
}
