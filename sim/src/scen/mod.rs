//! Scenario registry: one entry per claimed property.

use crate::sched::Sim;

pub mod breq;
pub mod c05d;
pub mod c07;
pub mod c08;
pub mod c10;
pub mod c11;
pub mod c12;
pub mod c13;
pub mod c14;
pub mod c15;
pub mod c16;
pub mod c17;
pub mod daemon;
pub mod client;
pub mod hostile;
pub mod props_w;
pub mod fe;
pub mod selftest;
pub mod server;

#[derive(Clone, Copy, PartialEq, Debug)]
pub enum Tier {
    Quick,
    Thorough,
}

impl Tier {
    pub fn name(&self) -> &'static str {
        match self {
            Tier::Quick => "quick",
            Tier::Thorough => "thorough",
        }
    }
    pub fn parse(s: &str) -> Tier {
        if s == "thorough" {
            Tier::Thorough
        } else {
            Tier::Quick
        }
    }
}

pub struct RunCfg {
    pub prop: &'static str,
    pub tier: Tier,
    pub seed: u64,
    /// position of this run in its batch; drives the deterministic sweeps
    pub index: u64,
}

#[derive(Default)]
pub struct RunOut {
    pub desc: String,
    pub nontrivial: bool,
    pub sweep_key: Option<u64>,
}

pub struct PropDef {
    pub id: &'static str,
    pub run: fn(&Sim, &RunCfg) -> RunOut,
    pub quick_runs: u64,
    pub thorough_runs: u64,
    pub level: &'static str,
    pub rule: &'static str,
    pub assumptions: &'static [&'static str],
    pub real: &'static [&'static str],
    pub stubs: &'static [&'static str],
    /// size of the finite sub-space enumerated by `index` (0 = none)
    pub sweep_size: fn(Tier) -> u64,
    pub sweep_desc: &'static str,
    /// property a panic inside library code is attributed to
    pub panic_prop: &'static str,
}

/// Set by the daemon family once it exists: the live-daemon half of C05.
pub static DAEMON_C05: std::sync::OnceLock<fn(&Sim, &RunCfg) -> RunOut> = std::sync::OnceLock::new();

pub fn no_sweep(_: Tier) -> u64 {
    0
}

pub const REAL_W: &[&str] = &[
    "vhost (Frontend, BackendReqHandler, Backend, FrontendReqHandler, GpuBackend, Endpoint, message structs)",
    "vmm-sys-util sendmsg/recvmsg wrappers",
    "Linux AF_UNIX stream sockets, SCM_RIGHTS, memfd, eventfd",
];
pub const STUB_W: &[&str] = &[
    "application request handlers (recording stubs with scripted results)",
    "peer VMM / peer backend (independent spec codec vsim::spec)",
    "thread scheduler (token passing over real threads)",
];
pub const REAL_D: &[&str] = &[
    "vhost-user-backend (VhostUserDaemon, handler, event loop, vrings, bitmap)",
    "vhost (BackendReqHandler, Frontend, Listener)",
    "vm-memory, virtio-queue, vmm-sys-util",
    "Linux AF_UNIX sockets, epoll, eventfd, memfd, mmap",
];
pub const STUB_D: &[&str] = &[
    "device backend (recording VhostUserBackend stub)",
    "guest (kick eventfd writer, memfd writer)",
    "VMM (scripted driver of the real Frontend or of the raw spec codec)",
    "thread scheduler (token passing over real threads)",
];
pub const ASSUME: &[&str] = &[
    "interleavings explored under sequential consistency at instrumented sync points only",
    "vm-memory, virtio-queue, vmm-sys-util and the kernel are atomic steps",
    "seeded sampling: a clean batch is evidence, not proof",
    "vsim::spec transcribes the vhost-user specification from memory; no copy of the text is in the sandbox",
];

pub fn all() -> Vec<PropDef> {
    let _ = DAEMON_C05.set(c05d::run);
    let mut v = Vec::new();
    v.push(selftest::def());
    v.push(server::def_c04());
    v.push(c07::def());
    v.push(c08::def());
    v.push(c10::def());
    v.push(c11::def());
    v.push(c12::def());
    v.push(c13::def());
    v.push(c14::def());
    v.push(c15::def());
    v.push(c16::def());
    v.push(c17::def());
    v.push(fe::def_c02());
    v.push(fe::def_c03());
    v.push(breq::def_c18());
    v.push(props_w::def_c01());
    v.push(props_w::def_c05());
    v.push(props_w::def_c06());
    v.push(props_w::def_c09());
    v
}

pub fn find(id: &str) -> Option<&'static PropDef> {
    static ALL: std::sync::OnceLock<Vec<PropDef>> = std::sync::OnceLock::new();
    ALL.get_or_init(all).iter().find(|d| d.id == id)
}
