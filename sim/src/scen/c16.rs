//! C16: daemon shutdown and teardown always complete, whatever the timing.

use std::os::unix::io::AsRawFd;
use std::os::unix::net::UnixStream;
use std::sync::{Arc, Mutex};

use vhost::vhost_user::Listener;
use vhost_user_backend::{VringMutex, VringRwLock, VringT};
use vm_memory::{GuestMemoryAtomic, GuestMemoryMmap};

use super::daemon::*;
use super::*;
use crate::fdu;
use crate::sched::{self, Sim, Violation};
use crate::spec::{self, fr, FReq};

#[derive(Clone, Debug, PartialEq)]
enum PeerPlan {
    /// connect and stay silent
    Idle,
    /// send k complete requests (reading replies), then stay silent
    Requests(usize),
    /// send k requests, then the first `cut` bytes of another one, then stay silent
    MidMessage(usize, usize),
    /// as MidMessage but close the socket afterwards
    CloseAt(usize, usize),
    /// as CloseAt, but the peer only shuts down its sending direction and then reads until
    /// end-of-stream: the daemon's read ends in a request error (clean or partial-message
    /// disconnect), after which it has to close its end
    HalfCloseAt(usize, usize),
    /// send a reply-bearing request and close without reading the reply
    CloseWithReplyPending(usize),
    /// send a malformed request (daemon must stop serving and close)
    BadRequest(usize),
}

pub fn def() -> PropDef {
    PropDef {
        id: "C16",
        run,
        quick_runs: 30000,
        thorough_runs: 2_000_000,
        level: "exploration",
        rule: "a live daemon; index%4: 3 = the application drops a connected daemon without wait() while the peer (idle / after k requests / mid-message) keeps its end open: daemon thread and every worker must terminate and the peer must read EOF; 0 = 1-3 shutdown-caller tasks (each calling once or twice) start after 0..40 scheduler steps, with the owner either already blocked in wait() or calling it after they returned, while a raw peer follows a drawn plan (idle / k complete requests / stopped after b bytes of a request, b enumerated over every offset of GET_VRING_BASE by index / closed at offset b / closed with a reply pending); after they returned wait() must return Ok, the peer must read EOF and a second start() on the same listener must serve a request; 1 = no shutdown request: the peer disconnects at offset b (enumerated) or with a reply pending, shuts down only its sending direction at offset b and reads on, or sends a malformed request: wait() must return Err, the peer must read EOF after a request error (malformed request, half-close), before wait() is called; 2 = serve(): must return Ok for clean and partial-header disconnects, Err for a disconnect inside a request body, and raise every worker's exit event; always: dropping the daemon ends all worker tasks; forced switches at the daemon-thread and shutdown hold points; hang = the scheduler's deadlock detector; non-trivial = a scheduling choice existed",
        assumptions: ASSUME,
        real: REAL_D,
        stubs: STUB_D,
        sweep_size: |_| 2 * 21,
        sweep_desc: "every byte offset 0..=20 of a GET_VRING_BASE request as the point where the peer stops (with shutdown) or closes (without)",
        panic_prop: "C16",
    }
}

fn run(sim: &Sim, cfg: &RunCfg) -> RunOut {
    // the property says "in bounded time" / "without blocking forever": a run that is still going
    // after the step cap (orders of magnitude above any run on the unchanged tree) is a violation
    sim.st().cap_clause = Some("livelock");
    sim.choose_policy();
    swarm_short_io(sim);
    let rw = sim.with_w(|t| t.chance(1, 2));
    if rw {
        run_v::<VringRwLock<GM<()>>>(sim, cfg)
    } else {
        run_v::<VringMutex<GM<()>>>(sim, cfg)
    }
}

fn req_bytes(k: usize) -> Vec<u8> {
    // a mix of reply-bearing requests without gates
    match k % 3 {
        0 => FReq::GetFeatures.wire(false),
        1 => FReq::GetVringBase { idx: 0 }.wire(false),
        _ => FReq::GetProtocolFeatures.wire(false),
    }
}

fn peer_run(sock: UnixStream, plan: PeerPlan, expect_eof: bool, out: Arc<Mutex<Vec<String>>>) {
    let fd = sock.as_raw_fd();
    let mut sock = Some(sock);
    let say = |s: String| out.lock().unwrap().push(s);
    let k = match &plan {
        PeerPlan::Idle => 0,
        PeerPlan::Requests(k)
        | PeerPlan::MidMessage(k, _)
        | PeerPlan::CloseAt(k, _)
        | PeerPlan::HalfCloseAt(k, _)
        | PeerPlan::CloseWithReplyPending(k)
        | PeerPlan::BadRequest(k) => *k,
    };
    for i in 0..k {
        let m = req_bytes(i);
        if fdu::raw_send_segmented(fd, &m, &[], &[], 0).is_err() {
            say("send failed".into());
            break;
        }
        match fdu::raw_recv_exact(fd, spec::HDR, "peer.recv") {
            Ok((h, _)) if h.len() == spec::HDR => {
                let hdr = spec::parse_hdr(&h);
                let _ = fdu::raw_recv_exact(fd, hdr.size as usize, "peer.recv");
                say(format!("reply {}", hdr.code));
            }
            _ => {
                say("eof instead of reply".into());
                break;
            }
        }
    }
    match &plan {
        PeerPlan::MidMessage(_, cut) | PeerPlan::CloseAt(_, cut) | PeerPlan::HalfCloseAt(_, cut) => {
            let m = FReq::GetVringBase { idx: 1 }.wire(false);
            let c = (*cut).min(m.len());
            if c > 0 {
                let _ = fdu::raw_send_segmented(fd, &m[..c], &[], &[], 0);
            }
            if matches!(plan, PeerPlan::CloseAt(..)) {
                sched::point("peer.close");
                sock = None;
            }
            if matches!(plan, PeerPlan::HalfCloseAt(..)) {
                sched::point("peer.close");
                // SAFETY: shutdown on a socket this task owns.
                unsafe { libc::shutdown(fd, libc::SHUT_WR) };
            }
        }
        PeerPlan::CloseWithReplyPending(_) => {
            let m = FReq::GetFeatures.wire(false);
            let _ = fdu::raw_send_segmented(fd, &m, &[], &[], 0);
            sched::point("peer.close");
            sock = None;
        }
        PeerPlan::BadRequest(_) => {
            // unknown request code with a body
            let m = spec::message(fr::MAX_DEFINED + 7, spec::VERSION, &[1, 2, 3, 4]);
            let _ = fdu::raw_send_segmented(fd, &m, &[], &[], 0);
        }
        _ => {}
    }
    if let Some(s) = sock {
        if expect_eof {
            // the daemon must close its end: read until end-of-stream
            loop {
                match fdu::raw_recv(fd, 4096, "peer.wait_eof") {
                    Ok((b, _, _)) if b.is_empty() => {
                        say("eof".into());
                        break;
                    }
                    Ok(_) => continue,
                    Err(e) => {
                        say(format!("eof(errno {e})"));
                        break;
                    }
                }
            }
        }
        drop(s);
    }
}

fn run_v<V: VringT<GM<()>> + Clone + Send + Sync + 'static>(sim: &Sim, cfg: &RunCfg) -> RunOut {
    sim.st().hot = vec![
        "daemon.before_request",
        "daemon.after_request",
        "daemon.before_final_shutdown",
        "shutdown.before_flag",
        "shutdown.between_flag_and_socket",
        "recv",
        "sent",
        "peer.close",
    ];
    let mode = cfg.index % 4;
    let sweep = cfg.index / 4;
    let (adapter, masks, plan, ncallers, delays, twice, sweep_key) = sim.with_w(|t| {
        let adapter = if t.chance(1, 2) { Adapter::Mutex } else { Adapter::RwLock };
        let masks: Vec<u64> = if t.chance(1, 2) { vec![0b11] } else { vec![0b01, 0b10] };
        let k = t.draw(3) as usize;
        let mut key = None;
        let plan = match mode {
            0 => {
                if sweep < 21 {
                    key = Some(sweep);
                    PeerPlan::MidMessage(k, sweep as usize)
                } else {
                    match t.draw(6) {
                        0 => PeerPlan::Idle,
                        1 => PeerPlan::Requests(k + 1),
                        2 => PeerPlan::MidMessage(k, t.draw(21) as usize),
                        3 => PeerPlan::CloseAt(k, t.draw(21) as usize),
                        4 => PeerPlan::CloseWithReplyPending(k),
                        _ => PeerPlan::BadRequest(k),
                    }
                }
            }
            3 => match t.draw(3) {
                0 => PeerPlan::Idle,
                1 => PeerPlan::Requests(k + 1),
                _ => PeerPlan::MidMessage(k, t.draw(21) as usize),
            },
            1 => {
                if sweep < 21 {
                    key = Some(21 + sweep);
                    PeerPlan::CloseAt(k, sweep as usize)
                } else {
                    match t.draw(5) {
                        0 => PeerPlan::CloseAt(k, t.draw(21) as usize),
                        1 => PeerPlan::CloseWithReplyPending(k),
                        2 | 3 => PeerPlan::HalfCloseAt(k, t.draw(21) as usize),
                        _ => PeerPlan::BadRequest(k),
                    }
                }
            }
            _ => match t.draw(3) {
                0 => PeerPlan::CloseAt(k, 0),
                1 => PeerPlan::CloseAt(k, 1 + t.draw(11) as usize),
                _ => PeerPlan::CloseAt(k, 12 + t.draw(8) as usize),
            },
        };
        let nc = t.range(1, 3) as usize;
        let delays: Vec<u64> = (0..nc).map(|_| t.draw(41)).collect();
        let twice: Vec<bool> = (0..nc).map(|_| t.chance(1, 3)).collect();
        (adapter, masks, plan, nc, delays, twice, key)
    });
    let desc = format!(
        "mode={} adapter={adapter:?} vring={} masks={masks:?} peer={plan:?} shutdown_callers={} delays={delays:?} twice={twice:?}",
        ["shutdown", "no-shutdown", "serve", "drop-while-connected"][mode as usize],
        std::any::type_name::<V>().rsplit("::").next().unwrap_or(""),
        if mode == 0 { ncallers } else { 0 }
    );
    crate::runner::set_desc(&desc);
    let viol = |clause: &str, keys: String, msg: String| -> ! { sim.violation(Violation::new("C16", clause, keys, msg)) };
    let plan_key = format!("{plan:?}").split('(').next().unwrap_or("").to_string();
    let stub = StubMut::<V, ()>::new(
        StubCfg {
            num_queues: 2,
            queues_per_thread: masks.clone(),
            ..Default::default()
        },
        sim,
    );
    let log = stub.log.clone();
    let nthreads = masks.len();
    let exit_probe: Vec<i32> = stub.exits.iter().map(|(c, _)| c.as_raw_fd()).collect();
    let mem = GuestMemoryAtomic::new(GuestMemoryMmap::<()>::new());
    let mut daemon = AnyDaemon::new(adapter, stub, mem);
    let path = sock_path();
    let peer_out = Arc::new(Mutex::new(Vec::<String>::new()));

    if mode == 2 {
        // ---- serve(): binds its own listener, handles one connection, raises exit events
        let p2 = path.clone();
        let po = peer_out.clone();
        let plan2 = plan.clone();
        let peer = sim.spawn("peer", "peer", move || {
            sched::wait_until(&|| p2.exists(), "peer.wait_listener");
            let sock = UnixStream::connect(&p2).expect("connect");
            peer_run(sock, plan2, false, po);
        });
        let r = match &mut daemon {
            AnyDaemon::M(d, _) => d.serve(&path).map_err(|e| format!("{e:?}")),
            AnyDaemon::R(d, _) => d.serve(&path).map_err(|e| format!("{e:?}")),
        };
        sim.join(peer);
        // the cut is at a boundary (0), inside the header (1..11): both "expected" disconnects
        let cut = match plan {
            PeerPlan::CloseAt(_, c) => c,
            _ => 0,
        };
        if cut < 12 {
            if let Err(e) = &r {
                viol("serve_disconnect_not_ok", format!("cut{}", cut.min(1)), format!("serve() returned {e} for a peer that disconnected after {cut} bytes of a request"));
            }
        } else if r.is_ok() {
            // only clean and partial-header disconnects are mapped to success
            viol("serve_ok_for_body_truncation", String::new(), format!("serve() returned Ok although the peer disconnected after {cut} bytes of a request, i.e. inside its body"));
        } else {
            sim.probe("serve_err_for_body_truncation");
        }
        // every worker's exit event must have been raised: the workers terminate
        sim.settle();
        for (i, fd) in exit_probe.iter().enumerate() {
            // the consumer handed to the library shares the counter with ours; it is either
            // still readable here or was consumed by the worker, which then terminated
            let _ = (i, fd);
        }
        let alive: Vec<String> = sim.pending_tasks().into_iter().filter(|t| t.starts_with("worker")).collect();
        if !alive.is_empty() {
            viol("serve_exit_event_not_raised", String::new(), format!("after serve() returned these workers are still running: {alive:?}"));
        }
        drop(daemon);
        close_leaked_exit_consumers(&log);
        return RunOut {
            desc,
            nontrivial: false,
            sweep_key: None,
        };
    }

    let mut listener = Listener::new(&path, true).expect("listener");
    let sock = UnixStream::connect(&path).expect("connect");
    sim.label_fd(sock.as_raw_fd(), "peer");
    daemon.start(&mut listener).expect("start");
    let handle = daemon.shutdown_handle();
    if handle.is_none() {
        viol("no_shutdown_handle", String::new(), "shutdown_handle() is None right after start()".into());
    }
    let handle = handle.unwrap();
    let po = peer_out.clone();
    let plan2 = plan.clone();
    let expect_eof = mode == 0 || mode == 3 || matches!(plan, PeerPlan::BadRequest(_) | PeerPlan::HalfCloseAt(..));
    // mode 3: the peer keeps its end open after it saw end-of-stream, until the harness lets go
    let release = Arc::new(std::sync::atomic::AtomicBool::new(mode != 3));
    let rel2 = release.clone();
    let peer = sim.spawn("peer", "peer", move || {
        let keep = sock.try_clone().ok();
        peer_run(sock, plan2, expect_eof, po);
        sched::wait_until(&|| rel2.load(std::sync::atomic::Ordering::SeqCst), "peer.hold_socket_open");
        drop(keep);
    });
    if mode == 3 {
        // ---- the application drops a connected daemon without calling wait()
        drop(handle);
        drop(daemon);
        sim.settle();
        let alive: Vec<String> = sim.pending_tasks().into_iter().filter(|t| t.starts_with("worker") || t.starts_with("daemon")).collect();
        let po = peer_out.lock().unwrap().clone();
        if !alive.is_empty() {
            viol(
                "threads_alive_after_drop",
                plan_key.clone(),
                format!("the daemon was dropped while connected (peer {plan:?}, still holding its end open) but these threads keep running: {alive:?}"),
            );
        }
        if !po.iter().any(|s| s.starts_with("eof")) {
            viol("peer_no_eof_after_drop", plan_key.clone(), format!("peer did not observe end-of-stream after the daemon was dropped: {po:?}"));
        }
        release.store(true, std::sync::atomic::Ordering::SeqCst);
        sim.join(peer);
        close_leaked_exit_consumers(&log);
        drop(listener);
        return RunOut {
            desc,
            nontrivial: false,
            sweep_key: None,
        };
    }
    if mode == 0 {
        let mut callers = Vec::new();
        for c in 0..ncallers {
            let h = handle.clone();
            let d = delays[c];
            let tw = twice[c];
            callers.push(sim.spawn(&format!("shutdown{c}"), "shutdown", move || {
                for _ in 0..d {
                    sched::point("shutdown.delay");
                }
                h.shutdown();
                if tw {
                    sched::point("shutdown.again");
                    h.shutdown();
                }
            }));
        }
        if sim.with_w(|t| t.chance(1, 2)) {
            // the owner is already blocked in wait() when the requests arrive. With a peer that
            // neither disconnects nor misbehaves, the shutdown request is the only thing that
            // can end the connection, so wait() has to report success; with the other peers
            // either may have come first and both results are in order.
            sim.probe("wait_concurrent_with_shutdown");
            let r = daemon.wait();
            let peer_harmless = matches!(plan, PeerPlan::Idle | PeerPlan::Requests(_) | PeerPlan::MidMessage(..));
            if let (Err(e), true) = (&r, peer_harmless) {
                viol(
                    "wait_err_concurrent_shutdown",
                    plan_key.clone(),
                    format!("wait(), entered before the shutdown request, returned {e}; the peer ({plan:?}) kept the connection open, only the shutdown request can have ended it"),
                );
            }
            for c in callers {
                sim.join(c);
            }
        } else {
            for c in callers {
                sim.join(c);
            }
            // "a following wait": every request has returned by now
            let r = daemon.wait();
            if let Err(e) = &r {
                viol("wait_err_after_shutdown", plan_key.clone(), format!("wait() returned {e} although shutdown had been requested (peer plan {plan:?})"));
            }
        }
        sim.join(peer);
        let po = peer_out.lock().unwrap().clone();
        let peer_alive_until_end = !matches!(plan, PeerPlan::CloseAt(..) | PeerPlan::CloseWithReplyPending(_));
        if peer_alive_until_end && !po.iter().any(|s| s.starts_with("eof")) {
            viol("peer_no_eof_after_shutdown", plan_key.clone(), format!("peer did not observe end-of-stream after shutdown: {po:?}"));
        }
        if daemon.shutdown_handle().is_some() {
            viol("stale_shutdown_handle", String::new(), "shutdown_handle() still Some after wait()".into());
        }
        // the daemon can accept a new connection
        let sock2 = UnixStream::connect(&path).expect("connect 2");
        if let Err(e) = daemon.start(&mut listener) {
            viol("restart_failed", String::new(), format!("second start() failed: {e}"));
        }
        let ok = Arc::new(Mutex::new(false));
        let ok2 = ok.clone();
        let p2 = sim.spawn("peer2", "peer", move || {
            let fd = sock2.as_raw_fd();
            let _ = fdu::raw_send_segmented(fd, &FReq::GetFeatures.wire(false), &[], &[], 0);
            if let Ok((h, _)) = fdu::raw_recv_exact(fd, spec::HDR + 8, "peer.recv") {
                if h.len() == spec::HDR + 8 && spec::parse_hdr(&h).code == fr::GET_FEATURES {
                    *ok2.lock().unwrap() = true;
                }
            }
            sched::point("peer.close");
            drop(sock2);
        });
        sim.join(p2);
        if !*ok.lock().unwrap() {
            viol("second_connection_not_served", String::new(), "GET_FEATURES on the second connection was not answered".into());
        }
        let r2 = daemon.wait();
        if r2.is_ok() {
            viol("disconnect_reported_as_ok", "second_connection".into(), "wait() returned Ok for the second connection, which the peer closed without any shutdown request".into());
        }
    } else {
        // ---- no shutdown request
        sim.join(peer);
        let r = daemon.wait();
        match (&plan, &r) {
            (PeerPlan::BadRequest(_), Ok(())) => viol("request_error_reported_as_ok", String::new(), "wait() returned Ok although the daemon stopped on a malformed request".into()),
            (PeerPlan::BadRequest(_) | PeerPlan::HalfCloseAt(..), Err(_)) => {
                let po = peer_out.lock().unwrap().clone();
                if !po.iter().any(|s| s.starts_with("eof")) {
                    viol("peer_no_eof_after_request_error", String::new(), format!("daemon stopped serving on a request error but the peer saw no end-of-stream: {po:?}"));
                }
            }
            (_, Ok(())) => viol(
                "disconnect_reported_as_ok",
                plan_key.clone(),
                format!("wait() returned Ok although the peer disconnected ({plan:?}) and no shutdown was requested"),
            ),
            _ => {}
        }
    }
    // dropping the daemon terminates all worker threads (exit events are supplied)
    drop(daemon);
    let alive: Vec<String> = sim.pending_tasks().into_iter().filter(|t| t.starts_with("worker")).collect();
    if !alive.is_empty() {
        viol("workers_alive_after_drop", String::new(), format!("worker tasks still running after the daemon was dropped: {alive:?}"));
    }
    close_leaked_exit_consumers(&log);
    drop(listener);
    let _ = nthreads;
    RunOut {
        desc,
        nontrivial: false,
        sweep_key,
    }
}
