//! Real `Frontend` <-> real `BackendReqHandler` sessions (both ends are library code, the
//! wiretap observes the bytes). Serves C02, C03, C01 (direction 1) and C07 (frontend side).

use std::fs::File;
use std::os::unix::io::AsRawFd;
use std::sync::{Arc, Mutex};

use vhost::vhost_user::message::VhostUserHeaderFlag;
use vhost::vhost_user::{BackendReqHandler, Frontend};

use super::server::{self, AnyHandler, Body, Out, Policy};
use super::*;
use crate::fdu;
use crate::rec::{fe_call, FeOk, Lent, RecDirect, RecMut, Script};
use crate::rng::Tape;
use crate::sched::{FaultCfg, Sim, Violation, WireRec};
use crate::spec::{self, pf, FReq, Gate, Inflight, Nego, Region, ReplyRule};

pub const MAXQ: u64 = 4;
/// request types (server::gen_valid_req numbering) that carry a queue index
const INDEXED_TYPES: [u64; 7] = [6, 7, 8, 9, 10, 11, 16];

/// API-acceptable, protocol-valid arguments for request type `typ`.
pub fn gen_api_req(t: &mut Tape, typ: u64) -> FReq {
    use FReq::*;
    let r = server::gen_valid_req(t, typ);
    let q = |t: &mut Tape| t.draw(MAXQ) as u32;
    match r {
        SetVringNum { .. } => SetVringNum {
            idx: q(t),
            num: t.lattice32() & 0xffff,
        },
        SetVringBase { .. } => SetVringBase {
            idx: q(t),
            num: t.lattice32() & 0xffff,
        },
        GetVringBase { .. } => GetVringBase { idx: q(t) },
        SetVringAddr { flags, desc, used, avail, log, .. } => SetVringAddr {
            idx: q(t),
            flags,
            desc,
            used,
            avail,
            log,
        },
        SetVringKick { .. } => SetVringKick {
            idx: q(t) as u8,
            nofd: false,
        },
        SetVringCall { .. } => SetVringCall {
            idx: q(t) as u8,
            nofd: false,
        },
        SetVringErr { .. } => SetVringErr {
            idx: q(t) as u8,
            nofd: false,
        },
        SetVringEnable { num, .. } => SetVringEnable { idx: q(t), num },
        SetInflightFd(i) => SetInflightFd(Inflight {
            mmap_size: i.mmap_size.max(1),
            ..i
        }),
        // not reachable through the Frontend API
        GpuSetSocket => SetOwner,
        r => r,
    }
}

/// A call the API must reject locally (nothing on the wire). `None` if this type has no such form.
pub fn gen_local_reject(t: &mut Tape, typ: u64) -> Option<(FReq, &'static str)> {
    use FReq::*;
    let r = gen_api_req(t, typ);
    let big = |t: &mut Tape| (MAXQ + t.draw(3) * 1000) as u32;
    Some(match r {
        SetVringNum { num, .. } => (SetVringNum { idx: big(t), num }, "queue_index"),
        SetVringBase { num, .. } => (SetVringBase { idx: big(t), num }, "queue_index"),
        GetVringBase { .. } => (GetVringBase { idx: big(t) }, "queue_index"),
        SetVringAddr { flags, desc, used, avail, log, .. } => (
            SetVringAddr {
                idx: big(t),
                flags,
                desc,
                used,
                avail,
                log,
            },
            "queue_index",
        ),
        SetVringKick { .. } => (
            SetVringKick {
                idx: big(t) as u8 | 0x80,
                nofd: false,
            },
            "queue_index",
        ),
        SetVringCall { .. } => (
            SetVringCall {
                idx: big(t) as u8 | 0x80,
                nofd: false,
            },
            "queue_index",
        ),
        SetVringEnable { num, .. } => (SetVringEnable { idx: big(t), num }, "queue_index"),
        SetMemTable(rs) => match t.draw(3) {
            0 => (SetMemTable(vec![]), "empty_region_list"),
            1 => {
                let mut v = rs.clone();
                while v.len() <= 32 {
                    v.push(rs[0].clone());
                }
                (SetMemTable(v), "oversized_region_list")
            }
            _ => {
                let mut v = rs;
                let k = t.draw(v.len() as u64) as usize;
                v[k].size = 0;
                (SetMemTable(v), "zero_sized_region")
            }
        },
        AddMemReg(r) => (AddMemReg(Region { size: 0, ..r }), "zero_sized_region"),
        RemMemReg(r) => (RemMemReg(Region { size: 0, ..r }), "zero_sized_region"),
        GetConfig { flags, .. } => {
            let (off, size) = match t.draw(3) {
                0 => (t.draw(0x1000) as u32, 0u32),
                1 => (0x1000 - 3, 4),
                _ => (0xffff_fff0, 0x20),
            };
            (
                GetConfig {
                    off,
                    size,
                    flags,
                    payload: vec![0; size as usize],
                },
                "config_window",
            )
        }
        SetConfig { flags, .. } => {
            let (off, n) = match t.draw(2) {
                0 => (0u32, 0usize),
                _ => (0x1000 - 3, 4),
            };
            (
                SetConfig {
                    off,
                    flags,
                    payload: vec![7; n],
                },
                "config_window",
            )
        }
        _ => return None,
    })
}

#[derive(Clone, Debug)]
pub enum Expect {
    /// the API must refuse without touching the wire
    LocalReject(&'static str),
    /// sent; outcome per reference model
    Sent(server::StepExp),
}

pub struct FeItem {
    pub req: FReq,
    pub script: Script,
    pub exp: Expect,
    /// result the caller must see: Some(true)=Ok, Some(false)=Err, None=not judged
    pub want_ok: Option<bool>,
}

pub struct FeSession {
    pub items: Vec<FeItem>,
    pub need_reply: bool,
    pub policy: Policy,
    pub adapter_mutex: bool,
    /// extra bits the caller passes to set_hdr_flags (version / reserved bits): the header
    /// constructor must not let them reach the wire
    pub hdr_noise: u32,
}

/// Frontend-side view of the negotiation (what the frontend endpoint knows).
#[derive(Default, Clone)]
pub struct FeNego {
    pub offered_virtio: u64,
    pub acked_virtio: u64,
    pub acked_proto: u64,
}

impl FeNego {
    fn open(&self, req: &FReq) -> bool {
        match req {
            FReq::GetProtocolFeatures | FReq::SetProtocolFeatures(_) => {
                self.offered_virtio & spec::VHOST_USER_F_PROTOCOL_FEATURES != 0
            }
            FReq::SetDeviceStateFd { .. } | FReq::CheckDeviceState => self.acked_proto & pf::DEVICE_STATE != 0,
            r => match r.gate() {
                Gate::None => true,
                Gate::Proto(b) => self.acked_proto & b != 0,
                Gate::VirtioProtocolFeatures => self.acked_virtio & spec::VHOST_USER_F_PROTOCOL_FEATURES != 0,
            },
        }
    }
}

pub struct FeGen {
    pub max_items: u64,
    pub fail_rate: u64,
    pub forced_type: Option<u64>,
    pub local_reject_rate: u64,
    pub closed_gate_rate: u64,
}

/// Run both reference models (frontend-side gating, backend server) over a call list.
pub fn build_fe_items(all: Vec<(FReq, Script, Option<&'static str>)>, need_reply: bool, policy: Policy) -> Vec<FeItem> {
    // reference models: what the frontend knows, and what the backend server does
    let mut fen = FeNego::default();
    let mut nego = Nego::default();
    let mut items = Vec::new();
    let mut alive = true;
    for (req, script, why) in all {
        if let Some(w) = why {
            items.push(FeItem {
                req,
                script,
                exp: Expect::LocalReject(w),
                want_ok: Some(false),
            });
            continue;
        }
        if !fen.open(&req) {
            if matches!(req, FReq::SetLogBase { .. }) {
                // without LOG_SHMFD the API sends a bare 64-bit SET_LOG_BASE, which the property
                // lists neither under accepted nor under rejected calls: not generated
                continue;
            }
            items.push(FeItem {
                req,
                script,
                exp: Expect::LocalReject("feature_not_negotiated"),
                want_ok: Some(false),
            });
            continue;
        }
        let exp = server::model_step(&mut nego, &req, need_reply, &script, policy);
        // frontend-side bookkeeping
        match &req {
            FReq::GetFeatures if !script.fail => fen.offered_virtio = script.val,
            FReq::SetFeatures(x) => fen.acked_virtio = *x & fen.offered_virtio,
            FReq::SetProtocolFeatures(x) => fen.acked_proto = *x,
            _ => {}
        }
        // what the caller must see (C03): only for operations with a reply or a negotiated ack
        let want_ok = if !alive {
            None
        } else {
            match req.reply_rule() {
                ReplyRule::Reply => Some(exp.called && matches!(&exp.out, Out::Reply { .. }) && reply_is_success(&req, &script)),
                ReplyRule::Ack => {
                    let fe_waits = need_reply && fen.acked_proto & pf::REPLY_ACK != 0;
                    if fe_waits && matches!(exp.out, Out::Ack { .. }) {
                        Some(!script.fail)
                    } else {
                        None
                    }
                }
            }
        };
        // a queue count above the protocol's maximum: whether the API passes it on or refuses
        // it is not the property's business, what it does to later index checks is (judge_fe)
        let want_ok = if matches!(req, FReq::GetQueueNum) && script.val > 0x8000 { None } else { want_ok };
        if exp.stop {
            alive = false;
        }
        items.push(FeItem {
            req,
            script,
            exp: Expect::Sent(exp),
            want_ok,
        });
    }
    items
}

pub fn gen_fe_session(t: &mut Tape, o: &FeGen) -> FeSession {
    // handler failures are only meaningful under the daemon's policy (stop serving and close
    // after a failed request): without it a failed reply-bearing request has no answer at all
    let policy = if t.chance(1, 2) && o.fail_rate == 0 { Policy::App } else { Policy::Daemon };
    let need_reply = t.chance(2, 3);
    let reply_ack = t.chance(2, 3);
    let adapter_mutex = t.chance(1, 2);
    let n = t.range(1, o.max_items);
    let mut body: Vec<(FReq, Option<&'static str>)> = Vec::new();
    for i in 0..n {
        let typ = match (o.forced_type, i) {
            (Some(ft), 0) => ft,
            _ => t.draw(server::N_FREQ_TYPES),
        };
        if t.chance(o.local_reject_rate, 100) {
            if let Some((r, why)) = gen_local_reject(t, typ) {
                body.push((r, Some(why)));
                continue;
            }
        }
        body.push((gen_api_req(t, typ), None));
    }
    if o.local_reject_rate > 0 && t.chance(1, 8) {
        // "beyond the known maximum" after the frontend was told a queue count: a usable one
        // or one it has to refuse (scripted below)
        body.push((FReq::GetQueueNum, None));
        for _ in 0..t.range(1, 3) {
            let typ = *t.pick(&INDEXED_TYPES);
            if let Some((r, why)) = gen_local_reject(t, typ) {
                body.push((r, Some(why)));
            }
        }
    }
    let mut need = 0u64;
    let mut need_vpf = false;
    for (r, _) in &body {
        let (b, v) = server::gate_bits(r);
        need |= b;
        need_vpf |= v;
        if matches!(r, FReq::SetDeviceStateFd { .. } | FReq::CheckDeviceState) {
            need |= pf::DEVICE_STATE;
        }
    }
    if t.chance(o.closed_gate_rate, 100) {
        let gs: Vec<u64> = (0..22).map(|b| 1u64 << b).filter(|g| need & g != 0).collect();
        if !gs.is_empty() {
            need &= !*t.pick(&gs);
        }
    }
    let noise = t.chance(1, 2);
    let mut all: Vec<(FReq, Script, Option<&'static str>)> = Vec::new();
    // the frontend API negotiates through get_features/set_features/get_protocol_features/
    // set_protocol_features; GET_PROTOCOL_FEATURES must offer what will be acknowledged
    let pre = server::nego_prefix(t, need, true, reply_ack, noise);
    for (r, s) in pre {
        if let FReq::SetProtocolFeatures(p) = &r {
            all.push((
                FReq::GetProtocolFeatures,
                Script {
                    val: *p,
                    ..Default::default()
                },
                None,
            ));
        }
        all.push((r, s, None));
    }
    let _ = need_vpf;
    let body_has_index_reject = body.iter().any(|(_, why)| *why == Some("queue_index"));
    for (r, why) in body {
        let mut s = server::gen_script(t, &r, o.fail_rate);
        if matches!(r, FReq::GetQueueNum) {
            // any queue count up to the protocol's maximum (0x8000) is a usable result; never
            // below MAXQ, so that later calls keep their queue indexes acceptable
            // (a session that also makes a call with an out-of-range queue index keeps MAXQ: the
            // index the API must refuse is defined against the count it learnt)
            // ... or gets a count beyond the protocol's maximum, which the frontend may refuse:
            // a refused reply teaches it nothing, the known maximum stays what it was
            let pinned = body_has_index_reject;
            s.val = match if pinned { 5 + t.draw(2) } else { t.draw(4) } {
                0 | 5 => MAXQ,
                6 => match t.draw(3) {
                    0 => 0x8001,
                    1 => u64::MAX,
                    _ => t.lattice64().max(0x8001),
                },
                1 => 0x8000,
                2 => 0x7fff,
                _ => MAXQ + t.draw(0x8000 - MAXQ + 1),
            };
        }
        if matches!(r, FReq::GetFeatures) {
            // a device does not withdraw VHOST_USER_F_PROTOCOL_FEATURES in mid-session; without
            // this the two endpoints legitimately disagree on whether acks are negotiated
            s.val |= spec::VHOST_USER_F_PROTOCOL_FEATURES;
        }
        all.push((r, s, why));
    }
    let items = build_fe_items(all, need_reply, policy);
    FeSession {
        items,
        need_reply,
        policy,
        adapter_mutex,
        hdr_noise: match t.draw(4) {
            0 => 0x3,
            1 => !0xfu32,
            2 => (1u32 << (4 + t.draw(28))) | 0x2,
            _ => 0,
        },
    }
}

fn reply_is_success(req: &FReq, s: &Script) -> bool {
    if s.fail {
        return false;
    }
    match req {
        FReq::GetConfig { size, .. } => s.bytes.len() == *size as usize,
        _ => true,
    }
}

pub struct OpRes {
    pub res: Option<Result<FeOk, String>>,
    pub seq_ret: u64,
    pub calls_after: usize,
    pub wire_after: usize,
    pub lent: Lent,
}

pub struct FeResult {
    pub ops: Vec<OpRes>,
    pub calls: Vec<(FReq, Vec<File>, u64, Vec<File>)>,
    pub wire_fe: Vec<WireRec>,
    pub wire_srv: Vec<WireRec>,
    pub results: Vec<Result<(), String>>,
}

pub fn run_fe_session(sim: &Sim, sess: &FeSession, seg_faults: bool) -> FeResult {
    let (fe_sock, srv_sock) = fdu::sockpair();
    sim.label_fd(fe_sock.as_raw_fd(), "fe");
    sim.label_fd(srv_sock.as_raw_fd(), "srv");
    if seg_faults {
        sim.st().faults = FaultCfg {
            short_send: 250,
            short_recv: 250,
            ..Default::default()
        };
    }
    // scripts are consumed per handler invocation: only items that reach the handler count
    let scripts: Vec<Script> = sess
        .items
        .iter()
        .filter(|i| matches!(&i.exp, Expect::Sent(e) if e.called))
        .map(|i| i.script.clone())
        .collect();
    let sim2 = sim.clone();
    let seq_fn: Box<dyn Fn() -> u64 + Send> = Box::new(move || sim2.seq());
    let handler = if sess.adapter_mutex {
        let m = Arc::new(Mutex::new(RecMut::default()));
        {
            let mut g = m.lock().unwrap();
            g.st.scripts = scripts;
            g.st.seq_fn = Some(seq_fn);
        }
        AnyHandler::Mutexed(m)
    } else {
        let d = Arc::new(RecDirect::default());
        {
            let mut g = d.inner.lock().unwrap();
            g.st.scripts = scripts;
            g.st.seq_fn = Some(seq_fn);
        }
        AnyHandler::Direct(d)
    };
    let results = Arc::new(Mutex::new(Vec::new()));
    let pol = sess.policy;
    let r2 = results.clone();
    let srv_task = match &handler {
        AnyHandler::Direct(d) => {
            let h = BackendReqHandler::from_stream(srv_sock, d.clone());
            sim.spawn("server", "server", move || server::serve_loop_pub(h, pol, r2))
        }
        AnyHandler::Mutexed(m) => {
            let h = BackendReqHandler::from_stream(srv_sock, m.clone());
            sim.spawn("server", "server", move || server::serve_loop_pub(h, pol, r2))
        }
    };
    let reqs: Vec<FReq> = sess.items.iter().map(|i| i.req.clone()).collect();
    let need_reply = sess.need_reply;
    let hdr_noise = sess.hdr_noise;
    let ops_out = Arc::new(Mutex::new(Vec::<OpRes>::new()));
    let oo = ops_out.clone();
    let sim3 = sim.clone();
    let hcount: Arc<dyn Fn() -> usize + Send + Sync> = match &handler {
        AnyHandler::Direct(d) => {
            let d = d.clone();
            Arc::new(move || d.inner.lock().unwrap().st.calls.len())
        }
        AnyHandler::Mutexed(m) => {
            let m = m.clone();
            Arc::new(move || m.lock().unwrap().st.calls.len())
        }
    };
    let caller = sim.spawn("caller", "caller", move || {
        let mut fe = Frontend::from_stream(fe_sock, MAXQ);
        if need_reply || hdr_noise != 0 {
            let nr = if need_reply { VhostUserHeaderFlag::NEED_REPLY.bits() } else { 0 };
            fe.set_hdr_flags(VhostUserHeaderFlag::from_bits_retain(nr | hdr_noise));
        }
        for req in reqs.iter() {
            let lent = Lent::for_req(req);
            let r = fe_call(&mut fe, req, &lent);
            let seq_ret = sim3.seq();
            let wire_after = sim3.wire_for("fe").len();
            oo.lock().unwrap().push(OpRes {
                res: r.map(|x| x.map_err(|e| format!("{e:?}"))),
                seq_ret,
                calls_after: hcount(),
                wire_after,
                lent,
            });
        }
        drop(fe);
    });
    sim.join(caller);
    sim.join(srv_task);
    let calls = handler.with(|r| {
        r.st.backends.clear();
        r.st.gpu.clear();
        r.st.seq_fn = None;
        r.st.calls.drain(..).map(|c| (c.req, c.files, c.seq, c.produced)).collect::<Vec<_>>()
    });
    let ops = std::mem::take(&mut *ops_out.lock().unwrap());
    let results = std::mem::take(&mut *results.lock().unwrap());
    FeResult {
        ops,
        calls,
        wire_fe: sim.wire_for("fe"),
        wire_srv: sim.wire_for("srv"),
        results,
    }
}

fn norm(req: &FReq) -> FReq {
    match req {
        FReq::GetConfig { off, size, flags, .. } => FReq::GetConfig {
            off: *off,
            size: *size,
            flags: *flags,
            payload: vec![],
        },
        r => r.clone(),
    }
}

/// What is checked: `c01` wire bytes, `c02` delivery, `c03` results.
pub struct Judge {
    pub prop: &'static str,
    pub c01: bool,
    pub c02: bool,
    pub c03: bool,
}

pub fn judge_fe(j: &Judge, sess: &FeSession, res: &FeResult) -> Result<(), Violation> {
    let v = |clause: &str, keys: &str, msg: String| Err(Violation::new(j.prop, clause, keys, msg));
    let mut calls_seen = 0usize;
    let mut exp_calls = 0usize;
    let mut wire_seen = 0usize;
    let mut alive = true;
    for (k, it) in sess.items.iter().enumerate() {
        let op = match res.ops.get(k) {
            Some(o) => o,
            None => return v("harness", "", format!("op {k} missing")),
        };
        let name = it.req.name();
        let r = match &op.res {
            None => {
                // no API method for this shape: skipped by the executor
                calls_seen = op.calls_after;
                wire_seen = op.wire_after;
                continue;
            }
            Some(r) => r,
        };
        if let (FReq::GetQueueNum, Ok(FeOk::U64(x))) = (&it.req, r) {
            if *x > 0x8000 {
                // an API that passes such a count on has learnt it: the out-of-range indexes of
                // this session are no longer out of range, nothing further is judged
                return Ok(());
            }
        }
        match &it.exp {
            Expect::LocalReject(why) => {
                if j.c02 || j.prop == "C07" {
                    if r.is_ok() {
                        return v("local_reject_accepted", why, format!("op {k} {:?} must be refused locally ({why}) but returned Ok", it.req));
                    }
                    if op.wire_after != wire_seen {
                        return v(
                            "local_reject_touched_wire",
                            why,
                            format!("op {k} {:?} was refused ({why}) after writing to the socket", it.req),
                        );
                    }
                    // (earlier fire-and-forget calls may still be trickling into the handler)
                    if op.calls_after > exp_calls {
                        return v("local_reject_reached_handler", why, format!("op {k} {name} refused locally but the handler was invoked"));
                    }
                }
            }
            Expect::Sent(exp) => {
                if !alive {
                    // the server stopped earlier (daemon policy): nothing more is judged
                    calls_seen = op.calls_after;
                    wire_seen = op.wire_after;
                    continue;
                }
                // ---- C02: exactly one handler invocation with equal arguments and files
                let call_idx = exp_calls;
                exp_calls += exp.called as usize;
                if j.c02 {
                    let expect_calls = exp_calls;
                    // fire-and-forget calls may return before the handler ran: judged at the end
                    let awaited = it.want_ok.is_some() || matches!(it.req.reply_rule(), ReplyRule::Reply);
                    if awaited && op.calls_after != expect_calls {
                        return v(
                            "handler_invocations",
                            name,
                            format!("op {k} {:?}: handler log has {} entries when the call returned, expected {}", it.req, op.calls_after, expect_calls),
                        );
                    }
                }
                // ---- C03: result
                if j.c03 {
                    if let Some(w) = it.want_ok {
                        if r.is_ok() != w {
                            return v(
                                if w { "success_reported_as_error" } else { "failure_reported_as_success" },
                                name,
                                format!("op {k} {:?} script fail={} bytes={} -> frontend returned {:?}", it.req, it.script.fail, it.script.bytes.len(), r),
                            );
                        }
                        if w {
                            check_value(j.prop, k, it, exp, r.as_ref().unwrap(), res, call_idx)?;
                        }
                    }
                }
                if exp.stop {
                    alive = false;
                }
            }
        }
        calls_seen = op.calls_after.max(calls_seen);
        wire_seen = op.wire_after;
    }
    // ---- C02: the complete handler log
    if j.c02 || j.c01 {
        let expected: Vec<(usize, &FeItem)> = sess
            .items
            .iter()
            .enumerate()
            .scan(true, |alive, (k, it)| {
                if !*alive {
                    return Some(None);
                }
                match &it.exp {
                    Expect::Sent(e) => {
                        if e.stop {
                            *alive = false;
                        }
                        if res.ops.get(k).map(|o| o.res.is_none()).unwrap_or(true) {
                            return Some(None);
                        }
                        Some(if e.called { Some((k, it)) } else { None })
                    }
                    _ => Some(None),
                }
            })
            .flatten()
            .collect();
        for (i, (k, it)) in expected.iter().enumerate() {
            match res.calls.get(i) {
                None => return v("handler_not_invoked", it.req.name(), format!("op {k} {:?} never reached the handler ({} calls seen; server results {:?})", it.req, res.calls.len(), res.results)),
                Some((got, files, seq, _)) => {
                    if *got != norm(&it.req) {
                        return v("handler_args", it.req.name(), format!("op {k}: handler saw {got:?}, caller passed {:?}", it.req));
                    }
                    let mut sent = res.ops[*k].lent.wire_fds(&it.req);
                    if matches!(it.req, FReq::SetBackendReqFd | FReq::GpuSetSocket) {
                        sent.clear();
                    }
                    if files.len() != sent.len() {
                        return v("handler_files", it.req.name(), format!("op {k}: handler got {} files, caller passed {}", files.len(), sent.len()));
                    }
                    for (f, s) in files.iter().zip(sent.iter()) {
                        if !fdu::same_open_file(f.as_raw_fd(), *s) {
                            return v("handler_file_identity", it.req.name(), format!("op {k}: received descriptor is not the caller's open file"));
                        }
                    }
                    let awaited = it.want_ok.is_some() || matches!(it.req.reply_rule(), ReplyRule::Reply);
                    if awaited && *seq > res.ops[*k].seq_ret {
                        return v("handler_after_return", it.req.name(), format!("op {k}: handler ran at event {seq}, call returned at {}", res.ops[*k].seq_ret));
                    }
                }
            }
        }
        if res.calls.len() > expected.len() {
            return v(
                "extra_handler_call",
                res.calls[expected.len()].0.name(),
                format!("handler invoked {} times, expected {}: extra {:?}", res.calls.len(), expected.len(), res.calls[expected.len()].0),
            );
        }
    }
    // ---- C01 direction 1: bytes the frontend put on the wire
    if j.c01 {
        judge_wire_fe(j.prop, sess, res)?;
    }
    Ok(())
}

fn check_value(
    prop: &str,
    k: usize,
    it: &FeItem,
    exp: &server::StepExp,
    got: &FeOk,
    res: &FeResult,
    call_idx: usize,
) -> Result<(), Violation> {
    let name = it.req.name();
    let bad = |msg: String| Err(Violation::new(prop, "wrong_value", name, format!("op {k} {name}: {msg}")));
    let produced = res.calls.get(call_idx).map(|c| &c.3);
    let same = |f: &File| -> bool {
        produced
            .map(|p| p.iter().any(|pf| fdu::same_open_file(pf.as_raw_fd(), f.as_raw_fd())))
            .unwrap_or(false)
    };
    match (&it.req, got, &exp.out) {
        (FReq::GetFeatures | FReq::GetQueueNum | FReq::GetMaxMemSlots, FeOk::U64(x), _) => {
            if *x != it.script.val {
                return bad(format!("returned {x:#x}, handler produced {:#x}", it.script.val));
            }
        }
        (FReq::GetProtocolFeatures, FeOk::U64(x), _) => {
            // the API returns a typed flag set: undefined bits are dropped by design
            let want = (it.script.val | pf::REPLY_ACK) & 0x3f_ffff;
            if *x & 0x3f_ffff != want {
                return bad(format!("returned {x:#x}, handler produced {:#x}", it.script.val));
            }
        }
        (FReq::GetVringBase { .. }, FeOk::U64(x), _) => {
            if *x != it.script.val & 0xffff_ffff {
                return bad(format!("returned {x:#x}, handler produced {:#x}", it.script.val as u32));
            }
        }
        (FReq::GetConfig { off, size, flags, .. }, FeOk::Config(o, s, f, p), _) => {
            if o != off || s != size || f != flags || p != &it.script.bytes {
                return bad("configuration bytes differ from what the handler produced".into());
            }
        }
        (FReq::GetSharedObject(_), FeOk::File(f), _) => {
            if !same(f) {
                return bad("returned file is not the handler's open file".into());
            }
        }
        (FReq::GetInflightFd(_), FeOk::Inflight(i, f), Out::Reply { body: Body::Prefix(p, _), .. }) => {
            if i.bytes()[..20] != p[..] || !same(f) {
                return bad("inflight description or file differ from what the handler produced".into());
            }
        }
        (FReq::SetDeviceStateFd { .. }, FeOk::OptFile(of), _) => match (of, it.script.with_file) {
            (Some(f), true) => {
                if !same(f) {
                    return bad("returned file is not the handler's open file".into());
                }
            }
            (None, false) => {}
            (a, b) => return bad(format!("file present={} but handler returned file={b}", a.is_some())),
        },
        (FReq::GetShmemConfig, FeOk::Shmem(n, sizes), _) => {
            let want: Vec<u64> = (0..256u64).map(|i| it.script.val.wrapping_mul(i + 1)).collect();
            if *n != (it.script.val % 257) as u32 || sizes != &want {
                return bad("shmem configuration differs from what the handler produced".into());
            }
        }
        _ => {}
    }
    Ok(())
}

/// Bytes the real frontend wrote must be the spec encoding of the issued calls.
fn judge_wire_fe(prop: &str, sess: &FeSession, res: &FeResult) -> Result<(), Violation> {
    let v = |clause: &str, keys: &str, msg: String| Err(Violation::new(prop, clause, keys, msg));
    let mut stream = Vec::new();
    let mut fd_at: Vec<(usize, usize)> = Vec::new();
    for w in &res.wire_fe {
        if w.nfds > 0 {
            fd_at.push((stream.len(), w.nfds));
        }
        stream.extend_from_slice(&w.bytes);
    }
    let msgs = match spec::split_stream(&stream) {
        Ok(m) => m,
        Err(e) => return v("wire_framing", "", format!("frontend byte stream does not parse: {e}")),
    };
    let sent: Vec<(usize, &FeItem)> = sess
        .items
        .iter()
        .enumerate()
        .filter(|(k, it)| matches!(it.exp, Expect::Sent(_)) && res.ops.get(*k).map(|o| o.res.is_some()).unwrap_or(false))
        .collect();
    let mut off = 0usize;
    for (i, (h, body)) in msgs.iter().enumerate() {
        let (k, it) = match sent.get(i) {
            Some(x) => *x,
            None => return v("wire_extra_message", &format!("code{}", h.code), format!("frontend wrote {} messages for {} calls", msgs.len(), sent.len())),
        };
        let name = it.req.name();
        if h.code != it.req.code() {
            return v("wire_code", name, format!("op {k} {name}: request code {} on the wire, specification says {}", h.code, it.req.code()));
        }
        let want_flags = spec::VERSION | if sess.need_reply { spec::F_NEED_REPLY } else { 0 };
        if h.flags != want_flags {
            return v("wire_flags", name, format!("op {k} {name}: header flags {:#x}, expected {:#x}", h.flags, want_flags));
        }
        let want = it.req.body();
        let same = match &it.req {
            // 4 bytes of struct tail padding: content not specified (don't-care)
            FReq::GetInflightFd(_) | FReq::SetInflightFd(_) => body.len() == 24 && body[..20] == want[..20],
            _ => *body == want,
        };
        if !same {
            return v(
                "wire_body",
                name,
                format!("op {k} {name}: payload {:02x?} differs from the specification encoding {:02x?}", &body[..body.len().min(64)], &want[..want.len().min(64)]),
            );
        }
        let nf: usize = fd_at.iter().filter(|(o, _)| *o == off).map(|(_, n)| *n).sum();
        if nf != res.ops[k].lent.wire_fds(&it.req).len() {
            return v("wire_fds", name, format!("op {k} {name}: {nf} descriptors attached to the first byte, expected {}", it.req.nfds()));
        }
        let end = off + spec::HDR + body.len();
        if fd_at.iter().any(|(o, _)| *o > off && *o < end) {
            return v("fds_not_on_first_byte", name, format!("op {k} {name}: descriptors attached to a later chunk of the message"));
        }
        off = end;
    }
    Ok(())
}

pub fn describe(s: &FeSession) -> String {
    let names: Vec<String> = s
        .items
        .iter()
        .map(|i| {
            format!(
                "{}{}{}",
                i.req.name(),
                match &i.exp {
                    Expect::LocalReject(w) => format!("[reject:{w}]"),
                    _ => String::new(),
                },
                if i.script.fail { "!fail" } else { "" }
            )
        })
        .collect();
    format!(
        "frontend<->server policy={:?} NEED_REPLY={} mutex_adapter={} ops=[{}]",
        s.policy,
        s.need_reply,
        s.adapter_mutex,
        names.join(",")
    )
}

// ------------------------------------------------------------------------------------------
// C02 / C03
// ------------------------------------------------------------------------------------------

pub fn def_c02() -> PropDef {
    PropDef {
        id: "C02",
        run: |sim, cfg| run_fe(sim, cfg, "C02"),
        quick_runs: 30_000,
        thorough_runs: 1_000_000,
        level: "exploration",
        rule: "seeded sessions of 1..12 frontend API calls (first call's type swept by index) after negotiation through the API, against the real backend server with a recording handler (direct or Mutex adapter); 15% of calls are forms the API must reject locally; half of the runs with short reads/writes on both sockets; distinct = distinct (workload tape, interleaving, fault trace); non-trivial = >= 2 calls or a fault fired or a scheduling choice existed",
        assumptions: ASSUME,
        real: REAL_W,
        stubs: STUB_W,
        sweep_size: |_| server::N_FREQ_TYPES,
        sweep_desc: "every frontend request type appears as first generated call of some session",
        panic_prop: "C02",
    }
}

pub fn def_c03() -> PropDef {
    PropDef {
        id: "C03",
        run: |sim, cfg| run_fe(sim, cfg, "C03"),
        quick_runs: 30_000,
        thorough_runs: 1_000_000,
        level: "exploration",
        rule: "as C02 but handler outcomes are scripted per call (40% failures, wrong-length config data, with/without returned file) and REPLY_ACK / NEED_REPLY vary; the oracle compares the frontend call's return value with the scripted outcome and the scheduler's deadlock detector decides 'never an indefinite wait'",
        assumptions: ASSUME,
        real: REAL_W,
        stubs: STUB_W,
        sweep_size: |_| server::N_FREQ_TYPES,
        sweep_desc: "every frontend request type appears as first generated call of some session",
        panic_prop: "C03",
    }
}

fn run_fe(sim: &Sim, cfg: &RunCfg, prop: &'static str) -> RunOut {
    sim.choose_policy();
    let c03 = prop == "C03";
    if c03 {
        // "never an indefinite wait": see the note at the other livelock clauses
        sim.st().cap_clause = Some("livelock");
    }
    let sess = sim.with_w(|t| {
        gen_fe_session(
            t,
            &FeGen {
                max_items: if cfg.tier == Tier::Thorough { 24 } else { 12 },
                fail_rate: if c03 { 40 } else { 0 },
                forced_type: Some(cfg.index % server::N_FREQ_TYPES),
                local_reject_rate: if c03 { 0 } else { 15 },
                closed_gate_rate: if c03 { 0 } else { 10 },
            },
        )
    });
    let d = describe(&sess);
    crate::runner::set_desc(&d);
    let res = run_fe_session(sim, &sess, (cfg.index / server::N_FREQ_TYPES) % 2 == 1);
    let j = Judge {
        prop,
        c01: false,
        c02: !c03,
        c03,
    };
    if let Err(v) = judge_fe(&j, &sess, &res) {
        sim.violation(v);
    }
    RunOut {
        desc: d,
        nontrivial: sess.items.len() >= 2,
        sweep_key: Some(cfg.index % server::N_FREQ_TYPES),
    }
}
