//! Hostile byte streams with attached descriptors against the two request servers.
//! Serves C05 (scenario 1), C06 (scenario 2) and the dedicated C09 workloads.

use std::collections::BTreeMap;
use std::fs::File;
use std::os::unix::io::{AsRawFd, FromRawFd};
use std::os::unix::net::UnixStream;
use std::sync::{Arc, Mutex};

use vhost::vhost_user::{BackendReqHandler, FrontendReqHandler};

use super::server::{gen_valid_req, serve_loop_pub, AnyHandler, Policy, N_FREQ_TYPES};
use super::*;
use crate::fdu;
use crate::rec::{FrRecDirect, RecDirect, RecMut};
use crate::rng::Tape;
use crate::sched::{self, Sim, Violation};
use crate::spec::{self, pf, BReq, FReq, Nego, Region};

pub struct Msg {
    pub bytes: Vec<u8>,
    pub fds_first: usize,
    /// descriptors attached to a later byte of the message: (offset, count)
    pub fds_mid: Option<(usize, usize)>,
    pub cuts: Vec<usize>,
    pub what: String,
}

/// Break one protocol rule of a valid request.
fn gen_invalid_req(t: &mut Tape, typ: u64) -> FReq {
    use FReq::*;
    let r = gen_valid_req(t, typ);
    match r {
        SetMemTable(mut rs) => {
            match t.draw(5) {
                0 => {
                    let k = t.draw(rs.len() as u64) as usize;
                    rs[k].size = 0;
                }
                1 => {
                    let k = t.draw(rs.len() as u64) as usize;
                    rs[k].gpa = (u64::MAX - rs[k].size).saturating_add(1 + t.draw(3));
                }
                2 => {
                    let k = t.draw(rs.len() as u64) as usize;
                    rs[k].uva = (u64::MAX - rs[k].size).saturating_add(1 + t.draw(3));
                }
                3 => {
                    let k = t.draw(rs.len() as u64) as usize;
                    rs[k].off = (u64::MAX - rs[k].size).saturating_add(1);
                }
                _ => {
                    while rs.len() <= 32 {
                        rs.push(rs[0].clone());
                    }
                }
            }
            SetMemTable(rs)
        }
        AddMemReg(r) | RemMemReg(r) => {
            let bad = match t.draw(4) {
                0 => Region { size: 0, ..r },
                1 => Region {
                    gpa: (u64::MAX - r.size).saturating_add(1),
                    ..r
                },
                2 => Region {
                    uva: (u64::MAX - r.size).saturating_add(1 + t.draw(2)),
                    ..r
                },
                _ => Region {
                    off: (u64::MAX - r.size).saturating_add(1),
                    ..r
                },
            };
            if typ == 25 {
                AddMemReg(bad)
            } else {
                RemMemReg(bad)
            }
        }
        SetVringAddr { idx, flags, desc, used, avail, log } => match t.draw(4) {
            0 => SetVringAddr {
                idx,
                flags: flags | (1 << (1 + t.draw(31))),
                desc,
                used,
                avail,
                log,
            },
            1 => SetVringAddr {
                idx,
                flags,
                desc: desc | (1 + t.draw(15)),
                used,
                avail,
                log,
            },
            2 => SetVringAddr {
                idx,
                flags,
                desc,
                used: used | (1 + t.draw(3)),
                avail,
                log,
            },
            _ => SetVringAddr {
                idx,
                flags,
                desc,
                used,
                avail: avail | 1,
                log,
            },
        },
        SetVringEnable { idx, .. } => SetVringEnable {
            idx,
            num: 2 + t.lattice32() % 0xffff_fff0,
        },
        GetConfig { flags, .. } => {
            let (off, size) = match t.draw(4) {
                0 => (0x1000 - 1, 2),
                1 => (t.draw(0x1000) as u32, 0),
                2 => (0xffff_fff0, 0x20),
                _ => (0x800, 0x801),
            };
            GetConfig {
                off,
                size,
                flags: if t.chance(1, 4) { flags | 4 } else { flags },
                payload: vec![0; (size as usize).min(0x900)],
            }
        }
        SetConfig { flags, .. } => SetConfig {
            off: 0x1000 - 1,
            flags: if t.chance(1, 4) { flags | 8 } else { flags },
            payload: vec![1; 2 + t.draw(30) as usize],
        },
        GetInflightFd(i) => GetInflightFd(spec::Inflight { num_queues: 0, ..i }),
        SetInflightFd(i) => SetInflightFd(spec::Inflight { queue_size: 0, ..i }),
        SetLogBase { off, .. } => match t.draw(2) {
            0 => SetLogBase { size: 0, off },
            _ => SetLogBase {
                size: 0x1000,
                off: u64::MAX - 0xfff,
            },
        },
        SetDeviceStateFd { dir, .. } => match t.draw(2) {
            0 => SetDeviceStateFd {
                dir: 2 + t.lattice32() % 1000,
                phase: 0,
            },
            _ => SetDeviceStateFd {
                dir,
                phase: 1 + t.lattice32() % 1000,
            },
        },
        GetSharedObject(_) => GetSharedObject(if t.chance(1, 2) { [0; 16] } else { [0xff; 16] }),
        r => r,
    }
}

fn gen_hostile_msg(t: &mut Tape, backend_channel: bool) -> Msg {
    let (mut code, mut body, good_fds, name) = if backend_channel {
        let k = t.draw(5);
        let r = super::breq::gen_breq(t, k);
        let r = match t.draw(6) {
            0 => match r {
                BReq::SharedObjectAdd(_) => BReq::SharedObjectAdd([0; 16]),
                BReq::SharedObjectLookup(_) => BReq::SharedObjectLookup([0xff; 16]),
                BReq::ShmemMap(m) => BReq::ShmemMap(spec::MMap { len: 0, ..m }),
                BReq::ShmemUnmap(m) => BReq::ShmemUnmap(spec::MMap {
                    flags: 2 + t.lattice64() % 1000,
                    ..m
                }),
                r => r,
            },
            1 => BReq::ConfigChange,
            _ => r,
        };
        (r.code(), r.body(), r.nfds(), r.name())
    } else {
        let typ = t.draw(N_FREQ_TYPES);
        let r = if t.chance(1, 3) { gen_invalid_req(t, typ) } else { gen_valid_req(t, typ) };
        (r.code(), r.body(), r.nfds(), r.name())
    };
    let mut flags = spec::VERSION | if t.chance(1, 3) { spec::F_NEED_REPLY } else { 0 };
    let mut size = body.len() as u32;
    let mut what = name.to_string();
    match t.draw(14) {
        0 => {
            code = match t.draw(4) {
                0 => 0,
                1 => t.draw(60) as u32,
                2 => 45 + t.draw(10) as u32,
                _ => t.lattice32(),
            };
            what.push_str("+code");
        }
        1 => {
            flags = match t.draw(5) {
                0 => flags | spec::F_REPLY,
                1 => flags & !3,
                2 => (flags & !3) | 2 | t.draw(2) as u32,
                3 => flags | (1 << (4 + t.draw(28))),
                _ => t.lattice32(),
            };
            what.push_str("+flags");
        }
        2 => {
            size = match t.draw(6) {
                0 => size.wrapping_add(1),
                1 => size.wrapping_sub(1),
                2 => 0,
                3 => 0x1001,
                4 => 0xffff_ffff,
                _ => t.lattice32(),
            };
            what.push_str("+size");
        }
        3 => {
            let n = t.draw(body.len() as u64 + 1) as usize;
            body.truncate(n);
            what.push_str("+short_body");
        }
        4 => {
            let extra = t.range(1, 64) as usize;
            body.extend_from_slice(&t.bytes(extra));
            if t.chance(1, 2) {
                size = body.len() as u32;
            }
            what.push_str("+long_body");
        }
        5 => {
            if !body.is_empty() {
                let i = t.draw(body.len() as u64) as usize;
                let v = t.lattice64().to_le_bytes();
                for (k, b) in v.iter().enumerate() {
                    if i + k < body.len() {
                        body[i + k] = *b;
                    }
                }
                what.push_str("+field");
            }
        }
        6 => {
            let n = t.draw(80) as usize;
            return Msg {
                bytes: t.bytes(n),
                fds_first: t.draw(4) as usize,
                fds_mid: None,
                cuts: vec![],
                what: "random".into(),
            };
        }
        _ => {}
    }
    let bytes = {
        let mut v = spec::header(code, flags, size);
        v.extend_from_slice(&body);
        v
    };
    let fds_first = match t.draw(8) {
        0 => 0,
        1 => 1,
        2 => 2,
        3 => 32,
        4 => 33,
        5 => 40,
        _ => good_fds,
    };
    let fds_mid = if bytes.len() > 2 && t.chance(1, 10) {
        Some((1 + t.draw(bytes.len() as u64 - 1) as usize, 1 + t.draw(3) as usize))
    } else {
        None
    };
    if fds_first != good_fds {
        what.push_str(&format!("+fds{fds_first}"));
    }
    if fds_mid.is_some() {
        what.push_str("+midfds");
    }
    let cuts = if bytes.len() >= 2 && t.chance(1, 3) {
        let mode = t.draw(6);
        super::server::gen_cuts(t, bytes.len(), mode)
    } else {
        vec![]
    };
    Msg {
        bytes,
        fds_first,
        fds_mid,
        cuts,
        what,
    }
}

pub struct HostileSession {
    pub msgs: Vec<Msg>,
    pub backend_channel: bool,
    pub policy: Policy,
    pub adapter_mutex: bool,
    /// tear the connection down right after message k
    pub close_after: Option<usize>,
}

pub fn gen_hostile(t: &mut Tape, backend_channel: bool) -> HostileSession {
    let mut msgs = Vec::new();
    if !backend_channel {
        // negotiation prefix: none / protocol features only / all gates
        let level = t.draw(3);
        if level > 0 {
            let offered = spec::VHOST_USER_F_PROTOCOL_FEATURES | if t.chance(1, 2) { t.lattice64() } else { 0 };
            let mut wf = |r: FReq| Msg {
                bytes: r.wire(false),
                fds_first: 0,
                fds_mid: None,
                cuts: vec![],
                what: r.name().to_string(),
            };
            msgs.push(wf(FReq::GetFeatures));
            msgs.push(wf(FReq::SetFeatures(offered)));
            let p = if level == 2 { 0x3f_ffff & !pf::XEN_MMAP } else { pf::REPLY_ACK | t.lattice64() & 0x3d_ffff };
            msgs.push(wf(FReq::SetProtocolFeatures(p)));
        }
    }
    let n = t.range(1, 6);
    for _ in 0..n {
        msgs.push(gen_hostile_msg(t, backend_channel));
    }
    let close_after = if t.chance(1, 4) { Some(t.draw(msgs.len() as u64) as usize) } else { None };
    HostileSession {
        msgs,
        backend_channel,
        policy: if t.chance(1, 2) { Policy::App } else { Policy::Daemon },
        adapter_mutex: t.chance(1, 2),
        close_after,
    }
}

pub struct HostileResult {
    pub fcalls: Vec<(FReq, usize)>,
    pub bcalls: Vec<(BReq, usize)>,
    pub results: Vec<Result<(), String>>,
    pub stream: Vec<u8>,
    pub fdmap: BTreeMap<usize, usize>,
}

pub fn run_hostile(sim: &Sim, s: &HostileSession) -> HostileResult {
    let results = Arc::new(Mutex::new(Vec::new()));
    let r2 = results.clone();
    let pol = s.policy;
    let mut fr_rec: Option<Arc<FrRecDirect>> = None;
    let mut be_rec: Option<AnyHandler> = None;
    let (peer_sock, srv_task) = if s.backend_channel {
        let rec = Arc::new(FrRecDirect::default());
        let mut h = FrontendReqHandler::new(rec.clone()).expect("FrontendReqHandler::new");
        h.set_reply_ack_flag(true);
        // SAFETY: dup of a valid fd.
        let d = unsafe { libc::dup(h.get_tx_raw_fd()) };
        assert!(d >= 0);
        sim.label_fd(h.as_raw_fd(), "srv");
        fr_rec = Some(rec);
        let task = sim.spawn("server", "server", move || {
            let mut h = h;
            loop {
                sched::point("server.before_request");
                let r = h.handle_request();
                let stop = match &r {
                    Ok(_) => false,
                    Err(vhost::vhost_user::Error::ReqHandlerError(_)) => pol == Policy::Daemon,
                    Err(_) => true,
                };
                r2.lock().unwrap().push(r.map(|_| ()).map_err(|e| format!("{e:?}")));
                if stop {
                    break;
                }
            }
            drop(h);
        });
        // SAFETY: we own d.
        (unsafe { UnixStream::from_raw_fd(d) }, task)
    } else {
        let (peer, srv) = fdu::sockpair();
        sim.label_fd(srv.as_raw_fd(), "srv");
        let task = if s.adapter_mutex {
            let m = Arc::new(Mutex::new(RecMut::default()));
            let h = BackendReqHandler::from_stream(srv, m.clone());
            be_rec = Some(AnyHandler::Mutexed(m));
            sim.spawn("server", "server", move || serve_loop_pub(h, pol, r2))
        } else {
            let d = Arc::new(RecDirect::default());
            let h = BackendReqHandler::from_stream(srv, d.clone());
            be_rec = Some(AnyHandler::Direct(d));
            sim.spawn("server", "server", move || serve_loop_pub(h, pol, r2))
        };
        (peer, task)
    };
    sim.label_fd(peer_sock.as_raw_fd(), "peer");
    // the byte stream and the positions of attached descriptors, as sent
    let mut stream = Vec::new();
    let mut fdmap = BTreeMap::new();
    let upto = s.close_after.map(|k| k + 1).unwrap_or(s.msgs.len());
    for m in s.msgs.iter().take(upto) {
        if m.fds_first > 0 && !m.bytes.is_empty() {
            *fdmap.entry(stream.len()).or_insert(0) += m.fds_first;
        }
        if let Some((o, n)) = m.fds_mid {
            *fdmap.entry(stream.len() + o).or_insert(0) += n;
        }
        stream.extend_from_slice(&m.bytes);
    }
    let plan: Vec<(Vec<u8>, usize, Option<(usize, usize)>, Vec<usize>)> = s
        .msgs
        .iter()
        .take(upto)
        .map(|m| (m.bytes.clone(), m.fds_first, m.fds_mid, m.cuts.clone()))
        .collect();
    let backend_channel = s.backend_channel;
    let peer = sim.spawn("peer", "peer", move || {
        let sock = peer_sock;
        let fd = sock.as_raw_fd();
        // a pool of descriptors of several kinds to attach
        let mut pool: Vec<File> = Vec::new();
        for i in 0..40 {
            pool.push(match i % 3 {
                0 => fdu::memfd("hostile", 4096),
                1 => fdu::eventfd(true),
                _ => {
                    let (a, _b) = fdu::sockpair();
                    // SAFETY: converting an owned socket into a File.
                    unsafe { File::from_raw_fd(std::os::unix::io::IntoRawFd::into_raw_fd(a)) }
                }
            });
        }
        let raw: Vec<i32> = pool.iter().map(|f| f.as_raw_fd()).collect();
        'msgs: for (bytes, f1, mid, cuts) in plan.iter() {
            if bytes.is_empty() {
                continue;
            }
            let r = match mid {
                Some((o, n)) if *o < bytes.len() => fdu::raw_send_segmented(fd, &bytes[..*o], &[], &raw[..*f1], 0)
                    .and_then(|_| fdu::raw_send_segmented(fd, &bytes[*o..], &[], &raw[..*n], 0)),
                _ => fdu::raw_send_segmented(fd, bytes, cuts, &raw[..*f1], 0),
            };
            if r.is_err() {
                break 'msgs;
            }
        }
        // drain whatever the server answered, then close
        fdu::shutdown_wr(&sock);
        loop {
            match fdu::raw_recv(fd, 4096, "peer.drain") {
                Ok((b, _, _)) if !b.is_empty() => continue,
                _ => break,
            }
        }
        let _ = backend_channel;
        drop(sock);
        drop(pool);
    });
    sim.join(peer);
    sim.join(srv_task);
    let mut fcalls = Vec::new();
    let mut bcalls = Vec::new();
    if let Some(h) = &be_rec {
        fcalls = h.with(|r| {
            r.st.backends.clear();
            r.st.gpu.clear();
            r.st.calls.drain(..).map(|c| (c.req, c.files.len())).collect()
        });
    }
    if let Some(r) = &fr_rec {
        bcalls = r.inner.lock().unwrap().calls.drain(..).map(|c| (c.req, c.file.is_some() as usize)).collect();
    }
    let results = std::mem::take(&mut *results.lock().unwrap());
    HostileResult {
        fcalls,
        bcalls,
        results,
        stream,
        fdmap,
    }
}

fn norm(req: &FReq) -> FReq {
    match req {
        FReq::GetConfig { off, size, flags, .. } => FReq::GetConfig {
            off: *off,
            size: *size,
            flags: *flags,
            payload: vec![],
        },
        r => r.clone(),
    }
}

/// Independent acceptance predicate: walk the stream with the spec's framing; the i-th handler
/// invocation must be the i-th message and every message up to it must be well-formed.
pub fn judge_hostile(prop: &str, s: &HostileSession, res: &HostileResult) -> Result<(), Violation> {
    let v = |clause: &str, keys: &str, msg: String| Err(Violation::new(prop, clause, keys, msg));
    let ncalls = if s.backend_channel { res.bcalls.len() } else { res.fcalls.len() };
    let st = &res.stream;
    let mut pos = 0usize;
    let mut nego = Nego::default();
    // Once a message carried more descriptors than the receive limit (32), the kernel truncates
    // the control data and the library drops that read: which bytes are parsed next is not
    // something the properties define. From there on each invocation is judged on its own
    // arguments only (validity rules, descriptor count, gate), not against the stream position.
    let mut args_only = false;
    for i in 0..ncalls {
        if !args_only {
            let end_guess = if pos + spec::HDR <= st.len() {
                pos + spec::HDR + spec::parse_hdr(&st[pos..]).size as usize
            } else {
                st.len()
            };
            if res.fdmap.range(pos..end_guess.max(pos + 1)).any(|(_, n)| *n > 32) {
                args_only = true;
            }
        }
        if args_only {
            if s.backend_channel {
                let (got, gf) = &res.bcalls[i];
                if !got.valid() || *gf != got.nfds() {
                    return v("handler_args_invalid", got.name(), format!("handler invocation {i} {got:?} with {gf} files violates the validity rules"));
                }
            } else {
                let (got, gf) = &res.fcalls[i];
                let want_files = if matches!(got, FReq::SetBackendReqFd | FReq::GpuSetSocket) { 0 } else { got.nfds() };
                let ok = match got {
                    // the handler interface does not carry the GET_CONFIG payload
                    FReq::GetConfig { off, size, flags, .. } => *size >= 1 && (*off as u64 + *size as u64) <= 0x1000 && flags & !3 == 0,
                    g => g.valid(),
                };
                if !ok || *gf != want_files || !nego.gate_open(got.gate()) {
                    return v("handler_args_invalid", got.name(), format!("handler invocation {i} {got:?} with {gf} files violates the validity rules or its gate"));
                }
                match got {
                    FReq::SetFeatures(x) => nego.acked_virtio = *x,
                    FReq::SetProtocolFeatures(x) => nego.acked_proto = *x,
                    _ => {}
                }
            }
            continue;
        }
        let call_desc = if s.backend_channel { format!("{:?}", res.bcalls[i].0) } else { format!("{:?}", res.fcalls[i].0) };
        let cname = if s.backend_channel { res.bcalls[i].0.name() } else { res.fcalls[i].0.name() };
        if pos + spec::HDR > st.len() {
            return v("call_without_message", cname, format!("handler invocation {i} {call_desc} has no message in the stream"));
        }
        let h = spec::parse_hdr(&st[pos..]);
        let end = pos + spec::HDR + h.size as usize;
        let bad = |why: &str| {
            Err(Violation::new(
                prop,
                "handler_invoked_for_malformed_request",
                format!("{cname}:{why}"),
                format!("handler invocation {i} {call_desc}: message at stream offset {pos} (header {h:?}) is not well-formed: {why}"),
            ))
        };
        // header version / REPLY / reserved bits and surplus payload on fixed-size requests are
        // not among the validity rules the properties list: not judged (don't-care)
        if end > st.len() {
            return bad("payload shorter than declared");
        }
        let body = &st[pos + spec::HDR..end];
        let f1 = res.fdmap.get(&pos).copied().unwrap_or(0);
        // descriptors attached to a later byte of a message are not delivered (the library
        // closes them): the handler's arguments still carry exactly the prescribed number, so
        // this is not judged here; C09's descriptor accounting covers their fate
        if s.backend_channel {
            let req = match BReq::decode_prefix(h.code, body) {
                Some(r) => r,
                None => return bad("unknown code or payload size"),
            };
            if !req.valid() {
                return bad("invalid body");
            }
            let _ = f1;
            let (got, gf) = &res.bcalls[i];
            if *got != req || *gf != req.nfds() {
                return v("handler_args", cname, format!("handler invocation {i} saw {got:?} ({gf} files), stream carries {req:?}"));
            }
        } else {
            let req = match FReq::decode_prefix(h.code, body) {
                Some(r) => r,
                None => return bad("unknown code or payload size"),
            };
            if !req.valid() {
                return bad("violates a validity rule");
            }
            // surplus descriptors on the wire that the library closes instead of delivering are
            // not judged here; what is judged is the number of files the handler was given
            if !nego.gate_open(req.gate()) {
                return bad("feature not negotiated");
            }
            let (got, gf) = &res.fcalls[i];
            let want_files = if matches!(req, FReq::SetBackendReqFd | FReq::GpuSetSocket) { 0 } else { req.nfds() };
            if *got != norm(&req) || *gf != want_files {
                return v("handler_args", cname, format!("handler invocation {i} saw {got:?} ({gf} files), stream carries {req:?}"));
            }
            match &req {
                FReq::SetFeatures(x) => nego.acked_virtio = *x,
                FReq::SetProtocolFeatures(x) => nego.acked_proto = *x,
                _ => {}
            }
        }
        pos = end;
    }
    // the server must have ended with an error (EOF at the latest), not be stuck
    if !matches!(res.results.last(), Some(Err(_))) {
        return v("no_terminal_error", "", format!("server results {:?}", res.results));
    }
    Ok(())
}

pub fn describe(s: &HostileSession) -> String {
    format!(
        "hostile stream to {} policy={:?} close_after={:?}: [{}]",
        if s.backend_channel { "FrontendReqHandler" } else { "BackendReqHandler" },
        s.policy,
        s.close_after,
        s.msgs.iter().map(|m| m.what.clone()).collect::<Vec<_>>().join(", ")
    )
}
