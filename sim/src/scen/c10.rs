//! C10: concurrent callers on clones of one endpoint get their own replies.
//!
//! Every public operation of the three endpoints can be drawn (any method may be the one whose
//! critical section is broken), not only a hand-picked few.

use std::os::unix::io::AsRawFd;
use std::sync::{Arc, Mutex};

use vhost::vhost_user::message::VhostUserHeaderFlag;
use vhost::vhost_user::{Backend, Frontend, GpuBackend, VhostUserFrontend};
use vhost::VhostBackend;

use super::client::{self, gen_greq, gpu_call, GpuOk, Target, N_GPU};
use super::fe::{gen_api_req, MAXQ};
use super::*;
use crate::fdu;
use crate::rec::{be_call, fe_call, FeOk, Lent};
use crate::rng::{fnv, Tape, FNV0};
use crate::sched::{self, Sim, Violation};
use crate::spec::{self, fr, pf, BReq, FReq, GReq, ReplyRule};

const FEATURES: u64 = spec::VHOST_USER_F_PROTOCOL_FEATURES | 0x1234_0000_0000;
/// every protocol feature bit that gates an operation, plus REPLY_ACK when wanted
const ALL_PROTO: u64 = 0x3f_ffff & !pf::XEN_MMAP & !pf::REPLY_ACK;

pub fn def() -> PropDef {
    PropDef {
        id: "C10",
        run,
        quick_runs: 45_000,
        thorough_runs: 1_500_000,
        level: "exploration",
        rule: "endpoint kind by index%3 (Frontend, Backend proxy with REPLY_ACK, GpuBackend); 2-3 caller tasks (2-4 in the thorough tier) share clones and issue 1-3 (1-5) calls each, drawn from ALL public operations of the endpoint (29 Frontend operations, 5 proxy requests, 12 GPU requests) with drawn arguments; the raw peer decodes each request with the independent codec, yields 1-4 times, requires FIONREAD == 0 before answering a reply-bearing or acknowledged request, and answers with the specification's reply whose values are derived from the request bytes; every call must return success with the value belonging to its own request; schedules: uniform random, PCT (d <= 3) and sticky, with forced switches after the send / lock / recv sync points; distinct = distinct (workload tape, interleaving, fault trace); non-trivial = at least one scheduling step had >= 2 runnable tasks",
        assumptions: ASSUME,
        real: REAL_W,
        stubs: STUB_W,
        sweep_size: no_sweep,
        sweep_desc: "",
        panic_prop: "C10",
    }
}

#[derive(Clone, Debug)]
enum Op {
    Fe(FReq),
    Proxy(BReq),
    Gpu(GReq),
}

fn hash_bytes(b: &[u8]) -> u64 {
    let mut h = FNV0;
    fnv(&mut h, b);
    h
}

fn run(sim: &Sim, cfg: &RunCfg) -> RunOut {
    sim.choose_policy();
    sim.st().hot = vec!["sent", "send", "frontend.node.lock", "backend_req.inner.lock", "gpu_backend.node.lock", "recv"];
    let kind = cfg.index % 3;
    let deep = cfg.tier == Tier::Thorough;
    let (ncallers, need_reply, reply_ack, plans, holds) = sim.with_w(|t| {
        let n = t.range(2, if deep { 4 } else { 3 }) as usize;
        let need_reply = t.chance(2, 3);
        let reply_ack = t.chance(2, 3);
        let mut plans: Vec<Vec<Op>> = Vec::new();
        for _c in 0..n {
            let k = t.range(1, if deep { 5 } else { 3 });
            let mut v = Vec::new();
            for _ in 0..k {
                v.push(match kind {
                    0 => {
                        // every frontend operation except the ones that renegotiate features
                        let mut typ = t.draw(super::server::N_FREQ_TYPES);
                        while matches!(typ, 1 | 14 | 22) {
                            typ = t.draw(super::server::N_FREQ_TYPES);
                        }
                        Op::Fe(gen_api_req(t, typ))
                    }
                    1 => {
                        let k = t.draw(super::breq::N_BREQ);
                        Op::Proxy(super::breq::gen_breq(t, k))
                    }
                    _ => {
                        let k = t.draw(N_GPU);
                        let mut g = gen_greq(t, k);
                        if let GReq::Update { data, .. } = &mut g {
                            data.truncate(2048);
                        }
                        Op::Gpu(g)
                    }
                });
            }
            plans.push(v);
        }
        let total: usize = plans.iter().map(|p| p.len()).sum();
        let holds: Vec<u64> = (0..total + 8).map(|_| t.range(1, 4)).collect();
        (n, need_reply, reply_ack, plans, holds)
    });
    let total: usize = plans.iter().map(|p| p.len()).sum();
    let names: Vec<Vec<&str>> = plans
        .iter()
        .map(|p| {
            p.iter()
                .map(|o| match o {
                    Op::Fe(r) => r.name(),
                    Op::Proxy(r) => r.name(),
                    Op::Gpu(r) => r.name(),
                })
                .collect()
        })
        .collect();
    let desc = format!(
        "kind={} callers={ncallers} NEED_REPLY={need_reply} REPLY_ACK={reply_ack} plans={names:?}",
        ["Frontend", "Backend proxy", "GpuBackend"][kind as usize]
    );
    crate::runner::set_desc(&desc);
    let (cl, peer_sock) = fdu::sockpair();
    sim.label_fd(cl.as_raw_fd(), "client");
    sim.label_fd(peer_sock.as_raw_fd(), "peer");
    let n_prefix = if kind == 0 { 4 } else { 0 };
    let protos = ALL_PROTO | if reply_ack { pf::REPLY_ACK } else { 0 };
    let peer_err = Arc::new(Mutex::new(None::<Violation>));
    let pe = peer_err.clone();
    // reply bytes the peer produced, keyed by the hash of the request bytes
    let answers: Arc<Mutex<Vec<(u64, Vec<u8>, usize)>>> = Arc::new(Mutex::new(Vec::new()));
    let ans2 = answers.clone();
    let peer = sim.spawn("peer", "peer", move || {
        let sock = peer_sock;
        let fd = sock.as_raw_fd();
        let pool: Vec<std::fs::File> = (0..2).map(|i| fdu::memfd(&format!("c10fd{i}"), 4096)).collect();
        let mut hold_i = 0usize;
        for m in 0..(n_prefix + total) {
            let (h, hf) = match fdu::raw_recv_exact(fd, spec::HDR, "peer.recv") {
                Ok(x) if x.0.len() == spec::HDR => x,
                _ => break,
            };
            drop(hf);
            let hdr = spec::parse_hdr(&h);
            let (body, bf) = match fdu::raw_recv_exact(fd, hdr.size as usize, "peer.recv") {
                Ok(x) => x,
                _ => break,
            };
            drop(bf);
            let mut key = h.clone();
            key.extend_from_slice(&body);
            let khash = hash_bytes(&key);
            // what does the protocol prescribe as answer? values derive from the request bytes
            let mut t = Tape::generating(khash, 77);
            let (reply, nfds): (Option<Vec<u8>>, usize) = match kind {
                2 => {
                    let g = match hdr.code {
                        spec::gr::GET_PROTOCOL_FEATURES => Some(GReq::GetProtocolFeatures),
                        spec::gr::GET_DISPLAY_INFO => Some(GReq::GetDisplayInfo),
                        spec::gr::GET_EDID => Some(GReq::GetEdid { scanout_id: 0 }),
                        spec::gr::DMABUF_UPDATE => Some(GReq::DmabufUpdate { scanout_id: 0, x: 0, y: 0, width: 0, height: 0 }),
                        _ => None,
                    };
                    match g {
                        Some(g) => {
                            let (b, n) = client::correct_reply(&mut t, &Target::Gpu(g));
                            (Some(b), n)
                        }
                        None => (None, 0),
                    }
                }
                1 => {
                    // ack value: low bit of a request byte, so that each caller can tell its own
                    let v = (body.get(1).copied().unwrap_or(0) & 1) as u64;
                    (Some(spec::message(hdr.code, spec::VERSION | spec::F_REPLY, &v.to_le_bytes())), 0)
                }
                _ => match hdr.code {
                    fr::GET_FEATURES => (Some(spec::message(hdr.code, spec::VERSION | spec::F_REPLY, &FEATURES.to_le_bytes())), 0),
                    fr::GET_PROTOCOL_FEATURES => (Some(spec::message(hdr.code, spec::VERSION | spec::F_REPLY, &protos.to_le_bytes())), 0),
                    fr::GET_QUEUE_NUM => (Some(spec::message(hdr.code, spec::VERSION | spec::F_REPLY, &MAXQ.to_le_bytes())), 0),
                    _ => match FReq::decode_prefix(hdr.code, &body) {
                        Some(req) => match req.reply_rule() {
                            ReplyRule::Reply => {
                                let (b, n) = client::correct_reply(&mut t, &Target::Fe(req));
                                (Some(b), n)
                            }
                            ReplyRule::Ack => {
                                if m >= n_prefix && reply_ack && hdr.flags & spec::F_NEED_REPLY != 0 {
                                    (Some(spec::message(hdr.code, spec::VERSION | spec::F_REPLY, &0u64.to_le_bytes())), 0)
                                } else {
                                    (None, 0)
                                }
                            }
                        },
                        None => (None, 0),
                    },
                },
            };
            if let Some(b) = reply {
                // hold point: let any other caller run while the request is outstanding
                let k = holds.get(hold_i).copied().unwrap_or(1);
                hold_i += 1;
                for _ in 0..k {
                    sched::point("peer.hold");
                }
                let queued = fdu::fionread(fd);
                if queued != 0 && m >= n_prefix {
                    *pe.lock().unwrap() = Some(Violation::new(
                        "C10",
                        "second_request_before_reply_consumed",
                        format!("code{}", hdr.code),
                        format!("{queued} bytes of another request were written while request code {} awaited its answer", hdr.code),
                    ));
                    break;
                }
                ans2.lock().unwrap().push((khash, b.clone(), nfds));
                let fds: Vec<i32> = pool.iter().take(nfds).map(|f| f.as_raw_fd()).collect();
                let _ = fdu::raw_send_segmented(fd, &b, &[], &fds, 0);
            }
        }
        sched::point("peer.close");
        drop(sock);
    });
    let bad = Arc::new(Mutex::new(None::<Violation>));
    let flag = |bad: &Arc<Mutex<Option<Violation>>>, c: usize, what: String, e: String| {
        let mut g = bad.lock().unwrap();
        if g.is_none() {
            *g = Some(Violation::new("C10", "foreign_or_missing_reply", what.split(['(', ' ', '{']).next().unwrap_or(""), format!("caller {c} {what}: {e}")));
        }
    };
    let mut tasks = Vec::new();
    match kind {
        0 => {
            let mut fe = Frontend::from_stream(cl, MAXQ);
            // negotiation by the harness task before the callers start
            let f = fe.get_features().expect("prefix get_features");
            fe.set_features(f).expect("prefix set_features");
            let p = fe.get_protocol_features().expect("prefix get_protocol_features");
            fe.set_protocol_features(p).expect("prefix set_protocol_features");
            if need_reply {
                fe.set_hdr_flags(VhostUserHeaderFlag::NEED_REPLY);
            }
            for (c, plan) in plans.iter().enumerate() {
                let mut fe = fe.clone();
                let plan = plan.clone();
                let bad = bad.clone();
                let answers = answers.clone();
                tasks.push(sim.spawn(&format!("caller{c}"), "caller", move || {
                    for op in plan {
                        let req = match &op {
                            Op::Fe(r) => r.clone(),
                            _ => continue,
                        };
                        let lent = Lent::for_req(&req);
                        match fe_call(&mut fe, &req, &lent) {
                            None => {}
                            Some(Err(e)) => {
                                flag(&bad, c, format!("{}", req.name()), format!("{e:?}"));
                                break;
                            }
                            Some(Ok(v)) => {
                                // the value must be the one the peer produced for *this* request
                                let wire = req.wire(need_reply);
                                let kh = hash_bytes(&wire);
                                let ans = answers.lock().unwrap().iter().find(|(k, _, _)| *k == kh).map(|(_, b, _)| b.clone());
                                if let (Some(b), FeOk::U64(x)) = (&ans, &v) {
                                    if b.len() == spec::HDR + 8 && !matches!(req, FReq::GetVringBase { .. } | FReq::GetProtocolFeatures) && spec::g64(b, spec::HDR) != *x {
                                        flag(&bad, c, format!("{}", req.name()), format!("returned {x:#x}, the peer answered this request with {:#x}", spec::g64(b, spec::HDR)));
                                        break;
                                    }
                                }
                                if let (Some(b), FeOk::Config(_, _, _, p)) = (&ans, &v) {
                                    if b[spec::HDR + 12..] != p[..] {
                                        flag(&bad, c, format!("{}", req.name()), "configuration payload of another request".into());
                                        break;
                                    }
                                }
                            }
                        }
                    }
                    drop(fe);
                }));
            }
            drop(fe);
        }
        1 => {
            let be = Backend::from_stream(cl);
            be.set_reply_ack_flag(true);
            be.set_shared_object_flag(true);
            be.set_shmem_flag(true);
            for (c, plan) in plans.iter().enumerate() {
                let be = be.clone();
                let plan = plan.clone();
                let bad = bad.clone();
                tasks.push(sim.spawn(&format!("caller{c}"), "caller", move || {
                    for op in plan {
                        let req = match &op {
                            Op::Proxy(r) => r.clone(),
                            _ => continue,
                        };
                        let f = if req.nfds() > 0 { Some(fdu::memfd("c10lent", 4096)) } else { None };
                        let r = be_call(&be, &req, f.as_ref());
                        let want_ok = req.body().get(1).copied().unwrap_or(0) & 1 == 0;
                        if r.is_ok() != want_ok {
                            flag(&bad, c, req.name().to_string(), format!("got {r:?}, own answer is ok={want_ok}"));
                            break;
                        }
                    }
                    drop(be);
                }));
            }
            drop(be);
        }
        _ => {
            let g = GpuBackend::from_stream(cl);
            for (c, plan) in plans.iter().enumerate() {
                let g = g.clone();
                let plan = plan.clone();
                let bad = bad.clone();
                let answers = answers.clone();
                tasks.push(sim.spawn(&format!("caller{c}"), "caller", move || {
                    for op in plan {
                        let req = match &op {
                            Op::Gpu(r) => r.clone(),
                            _ => continue,
                        };
                        let f = if req.nfds() > 0 { Some(fdu::memfd("c10lent", 4096)) } else { None };
                        match gpu_call(&g, &req, f.as_ref()) {
                            Err(e) => {
                                flag(&bad, c, req.name().to_string(), format!("{e:?}"));
                                break;
                            }
                            Ok(GpuOk::Bytes(b)) => {
                                let wire = spec::message(req.code(), 0, &req.body());
                                let kh = hash_bytes(&wire);
                                let ans = answers.lock().unwrap().iter().find(|(k, _, _)| *k == kh).map(|(_, b, _)| b.clone());
                                if let Some(a) = ans {
                                    if a[spec::HDR..] != b[..] {
                                        flag(&bad, c, req.name().to_string(), "returned the reply of another request".into());
                                        break;
                                    }
                                }
                            }
                            Ok(GpuOk::Unit) => {}
                        }
                    }
                    drop(g);
                }));
            }
            drop(g);
        }
    }
    for t in tasks {
        sim.join(t);
    }
    sim.join(peer);
    if let Some(v) = peer_err.lock().unwrap().take() {
        sim.violation(v);
    }
    if let Some(v) = bad.lock().unwrap().take() {
        sim.violation(v);
    }
    answers.lock().unwrap().clear();
    let _ = <Frontend as VhostUserFrontend>::get_queue_num;
    RunOut {
        desc,
        nontrivial: false,
        sweep_key: None,
    }
}
