//! C10: concurrent callers on clones of one endpoint get their own replies.

use std::os::unix::io::AsRawFd;
use std::sync::{Arc, Mutex};

use vhost::vhost_user::gpu_message::*;
use vhost::vhost_user::message::{VhostUserConfigFlags, VhostUserHeaderFlag, VhostUserProtocolFeatures, VhostUserSharedMsg};
use vhost::vhost_user::{Backend, Frontend, GpuBackend, VhostUserFrontend, VhostUserFrontendReqHandler};
use vhost::VhostBackend;
use vm_memory::ByteValued;

use super::*;
use crate::fdu;
use crate::sched::{self, Sim, Violation};
use crate::spec::{self, fr, gr, pf};

#[derive(Clone, Debug)]
enum Op {
    // frontend
    GetVringBase(u32),
    GetConfig(u32, u32),
    GetFeatures,
    SetVringNum(u32, u16),
    SetVringBase(u32, u16),
    // proxy
    ShObjAdd([u8; 16]),
    ShObjRemove([u8; 16]),
    // gpu
    GetEdid(u32),
    GetDisplayInfo,
    DmabufUpdate(u32),
    SetScanout(u32),
    CursorPos(u32),
}

fn vnum(idx: u32) -> u32 {
    7000 + 13 * idx
}
fn cfg_byte(off: u32) -> u8 {
    (off as u8) ^ 0x5a
}
fn edid_byte(id: u32) -> u8 {
    (id as u8).wrapping_mul(3).wrapping_add(1)
}
const FEATURES: u64 = spec::VHOST_USER_F_PROTOCOL_FEATURES | 0x1234_0000_0000;

pub fn def() -> PropDef {
    PropDef {
        id: "C10",
        run,
        quick_runs: 45_000,
        thorough_runs: 1_500_000,
        level: "exploration",
        rule: "endpoint kind by index%3 (Frontend, Backend proxy with REPLY_ACK, GpuBackend); 2-3 caller tasks share clones and issue 1-3 calls each from a mix of reply-bearing, acknowledged and fire-and-forget operations with caller-unique arguments; the raw peer reads one request, yields 1-4 times, requires FIONREAD == 0 before answering a reply-bearing or acknowledged request, and answers with a value derived from the request's identity; schedules: uniform random, PCT (d <= 3) and sticky, with forced switches after the send / lock sync points; distinct = distinct (workload tape, interleaving, fault trace); non-trivial = at least one scheduling step had >= 2 runnable tasks",
        assumptions: ASSUME,
        real: REAL_W,
        stubs: STUB_W,
        sweep_size: no_sweep,
        sweep_desc: "",
        panic_prop: "C10",
    }
}

fn run(sim: &Sim, cfg: &RunCfg) -> RunOut {
    sim.choose_policy();
    sim.st().hot = vec!["sent", "send", "frontend.node.lock", "backend_req.inner.lock", "gpu_backend.node.lock", "recv"];
    let kind = cfg.index % 3;
    let deep = cfg.tier == Tier::Thorough;
    let (ncallers, need_reply, reply_ack, plans, holds) = sim.with_w(|t| {
        let n = t.range(2, if deep { 4 } else { 3 }) as usize;
        let need_reply = t.chance(2, 3);
        let reply_ack = t.chance(2, 3);
        let mut plans: Vec<Vec<Op>> = Vec::new();
        for c in 0..n {
            let k = t.range(1, if deep { 5 } else { 3 });
            let mut v = Vec::new();
            for j in 0..k {
                let tag = (c as u32) * 8 + j as u32;
                v.push(match kind {
                    0 => match t.draw(5) {
                        0 => Op::GetVringBase(c as u32),
                        1 => Op::GetConfig(0x100 + tag * 4, 1 + t.draw(8) as u32),
                        2 => Op::GetFeatures,
                        3 => Op::SetVringNum(c as u32, 100 + tag as u16),
                        _ => Op::SetVringBase(c as u32, 200 + tag as u16),
                    },
                    1 => {
                        let mut u = [0x11u8; 16];
                        u[0] = tag as u8;
                        u[1] = t.draw(256) as u8;
                        if t.chance(1, 2) {
                            Op::ShObjAdd(u)
                        } else {
                            Op::ShObjRemove(u)
                        }
                    }
                    _ => match t.draw(5) {
                        0 => Op::GetEdid(tag),
                        1 => Op::GetDisplayInfo,
                        2 => Op::DmabufUpdate(tag),
                        3 => Op::SetScanout(tag),
                        _ => Op::CursorPos(tag),
                    },
                });
            }
            plans.push(v);
        }
        let total: usize = plans.iter().map(|p| p.len()).sum();
        let holds: Vec<u64> = (0..total + 8).map(|_| t.range(1, 4)).collect();
        (n, need_reply, reply_ack, plans, holds)
    });
    let total: usize = plans.iter().map(|p| p.len()).sum();
    let desc = format!(
        "kind={} callers={ncallers} NEED_REPLY={need_reply} REPLY_ACK={reply_ack} plans={plans:?}",
        ["Frontend", "Backend proxy", "GpuBackend"][kind as usize]
    );
    crate::runner::set_desc(&desc);
    let (cl, peer_sock) = fdu::sockpair();
    sim.label_fd(cl.as_raw_fd(), "client");
    sim.label_fd(peer_sock.as_raw_fd(), "peer");
    let n_prefix = if kind == 0 { 4 } else { 0 };
    let ack_on = match kind {
        0 => need_reply && reply_ack,
        1 => true,
        _ => false,
    };
    let peer_err = Arc::new(Mutex::new(None::<Violation>));
    let pe = peer_err.clone();
    let peer = sim.spawn("peer", "peer", move || {
        let sock = peer_sock;
        let fd = sock.as_raw_fd();
        let mut hold_i = 0usize;
        for m in 0..(n_prefix + total) {
            let (h, hf) = match fdu::raw_recv_exact(fd, spec::HDR, "peer.recv") {
                Ok(x) if x.0.len() == spec::HDR => x,
                _ => break,
            };
            drop(hf);
            let hdr = spec::parse_hdr(&h);
            let (body, _bf) = match fdu::raw_recv_exact(fd, hdr.size as usize, "peer.recv") {
                Ok(x) => x,
                _ => break,
            };
            // what does the protocol prescribe as answer?
            let gpu = kind == 2;
            let reply: Option<Vec<u8>> = if gpu {
                match hdr.code {
                    gr::GET_EDID => {
                        let id = spec::g32(&body, 0);
                        let mut b = vec![0u8; gr::EDID_RESP_SIZE];
                        for x in b.iter_mut() {
                            *x = edid_byte(id);
                        }
                        Some(b)
                    }
                    gr::GET_DISPLAY_INFO => Some(vec![0x77; gr::DISPLAY_INFO_SIZE]),
                    gr::DMABUF_UPDATE => Some(vec![]),
                    _ => None,
                }
            } else if kind == 1 {
                // ack value: derived from the uuid so that each caller can tell its own answer
                Some(((body[1] & 1) as u64).to_le_bytes().to_vec())
            } else {
                match hdr.code {
                    fr::GET_FEATURES => Some(FEATURES.to_le_bytes().to_vec()),
                    fr::GET_PROTOCOL_FEATURES => Some((pf::CONFIG | if reply_ack { pf::REPLY_ACK } else { 0 }).to_le_bytes().to_vec()),
                    fr::GET_VRING_BASE => {
                        let idx = spec::g32(&body, 0);
                        let mut b = Vec::new();
                        spec::p32(&mut b, idx);
                        spec::p32(&mut b, vnum(idx));
                        Some(b)
                    }
                    fr::GET_CONFIG => {
                        let off = spec::g32(&body, 0);
                        let size = spec::g32(&body, 4);
                        let mut b = body[..12].to_vec();
                        b.extend(std::iter::repeat(cfg_byte(off)).take(size as usize));
                        Some(b)
                    }
                    _ => {
                        if m >= n_prefix && ack_on && hdr.flags & spec::F_NEED_REPLY != 0 {
                            Some(0u64.to_le_bytes().to_vec())
                        } else {
                            None
                        }
                    }
                }
            };
            if let Some(b) = reply {
                // hold point: let any other caller run while the request is outstanding
                let k = holds.get(hold_i).copied().unwrap_or(1);
                hold_i += 1;
                for _ in 0..k {
                    sched::point("peer.hold");
                }
                let queued = fdu::fionread(fd);
                if queued != 0 && m >= n_prefix {
                    *pe.lock().unwrap() = Some(Violation::new(
                        "C10",
                        "second_request_before_reply_consumed",
                        format!("code{}", hdr.code),
                        format!("{queued} bytes of another request were written while request code {} awaited its answer", hdr.code),
                    ));
                    break;
                }
                let flags = if gpu { gr::F_REPLY } else { spec::VERSION | spec::F_REPLY };
                let msg = spec::message(hdr.code, flags, &b);
                let _ = fdu::raw_send_segmented(fd, &msg, &[], &[], 0);
            }
        }
        sched::point("peer.close");
        drop(sock);
    });
    let bad = Arc::new(Mutex::new(None::<Violation>));
    let mut tasks = Vec::new();
    match kind {
        0 => {
            let mut fe = Frontend::from_stream(cl, 8);
            // negotiation by the harness task before the callers start
            let f = fe.get_features().expect("prefix get_features");
            fe.set_features(f).expect("prefix set_features");
            let p = fe.get_protocol_features().expect("prefix get_protocol_features");
            fe.set_protocol_features(p).expect("prefix set_protocol_features");
            let _ = VhostUserProtocolFeatures::CONFIG;
            if need_reply {
                fe.set_hdr_flags(VhostUserHeaderFlag::NEED_REPLY);
            }
            for (c, plan) in plans.iter().enumerate() {
                let mut fe = fe.clone();
                let plan = plan.clone();
                let bad = bad.clone();
                tasks.push(sim.spawn(&format!("caller{c}"), "caller", move || {
                    for op in plan {
                        let r: Result<(), String> = match &op {
                            Op::GetVringBase(i) => match fe.get_vring_base(*i as usize) {
                                Ok(v) if v == vnum(*i) => Ok(()),
                                other => Err(format!("{other:?}, own answer is {}", vnum(*i))),
                            },
                            Op::GetConfig(off, size) => {
                                let buf = vec![0u8; *size as usize];
                                match fe.get_config(*off, *size, VhostUserConfigFlags::empty(), &buf) {
                                    Ok((c, p)) if { c.offset } == *off && p.iter().all(|b| *b == cfg_byte(*off)) => Ok(()),
                                    Ok((c, p)) => Err(format!("config reply offset {:#x} payload {:02x?}, own offset {off:#x}", { c.offset }, p)),
                                    Err(e) => Err(format!("{e:?}")),
                                }
                            }
                            Op::GetFeatures => match fe.get_features() {
                                Ok(v) if v == FEATURES => Ok(()),
                                other => Err(format!("{other:?}")),
                            },
                            Op::SetVringNum(i, n) => fe.set_vring_num(*i as usize, *n).map_err(|e| format!("{e:?}")),
                            Op::SetVringBase(i, n) => fe.set_vring_base(*i as usize, *n).map_err(|e| format!("{e:?}")),
                            _ => Ok(()),
                        };
                        if let Err(e) = r {
                            let mut g = bad.lock().unwrap();
                            if g.is_none() {
                                *g = Some(Violation::new("C10", "foreign_or_missing_reply", format!("{op:?}").split('(').next().unwrap_or(""), format!("caller {c} {op:?}: {e}")));
                            }
                            break;
                        }
                    }
                    drop(fe);
                }));
            }
            drop(fe);
        }
        1 => {
            let be = Backend::from_stream(cl);
            be.set_reply_ack_flag(true);
            be.set_shared_object_flag(true);
            for (c, plan) in plans.iter().enumerate() {
                let be = be.clone();
                let plan = plan.clone();
                let bad = bad.clone();
                tasks.push(sim.spawn(&format!("caller{c}"), "caller", move || {
                    for op in plan {
                        let (u, r) = match &op {
                            Op::ShObjAdd(u) => (*u, be.shared_object_add(&VhostUserSharedMsg { uuid: uuid::Uuid::from_bytes(*u) })),
                            Op::ShObjRemove(u) => (*u, be.shared_object_remove(&VhostUserSharedMsg { uuid: uuid::Uuid::from_bytes(*u) })),
                            _ => continue,
                        };
                        let want_ok = u[1] & 1 == 0;
                        if r.is_ok() != want_ok {
                            let mut g = bad.lock().unwrap();
                            if g.is_none() {
                                *g = Some(Violation::new("C10", "foreign_or_missing_reply", "shared_object", format!("caller {c} {op:?}: got {r:?}, own answer is ok={want_ok}")));
                            }
                            break;
                        }
                    }
                    drop(be);
                }));
            }
            drop(be);
        }
        _ => {
            let g = GpuBackend::from_stream(cl);
            for (c, plan) in plans.iter().enumerate() {
                let g = g.clone();
                let plan = plan.clone();
                let bad = bad.clone();
                tasks.push(sim.spawn(&format!("caller{c}"), "caller", move || {
                    for op in plan {
                        let r: Result<(), String> = match &op {
                            Op::GetEdid(id) => match g.get_edid(&VhostUserGpuEdidRequest { scanout_id: *id }) {
                                Ok(e) if e.as_slice().iter().all(|b| *b == edid_byte(*id)) => Ok(()),
                                Ok(e) => Err(format!("edid reply filled with {:#x}, own is {:#x}", e.as_slice()[0], edid_byte(*id))),
                                Err(e) => Err(format!("{e:?}")),
                            },
                            Op::GetDisplayInfo => match g.get_display_info() {
                                Ok(d) if d.as_slice().iter().all(|b| *b == 0x77) => Ok(()),
                                Ok(d) => Err(format!("display info filled with {:#x}", d.as_slice()[0])),
                                Err(e) => Err(format!("{e:?}")),
                            },
                            Op::DmabufUpdate(id) => g
                                .update_dmabuf_scanout(&VhostUserGpuUpdate {
                                    scanout_id: *id,
                                    x: 1,
                                    y: 2,
                                    width: 3,
                                    height: 4,
                                })
                                .map_err(|e| format!("{e:?}")),
                            Op::SetScanout(id) => g
                                .set_scanout(&VhostUserGpuScanout {
                                    scanout_id: *id,
                                    width: 5,
                                    height: 6,
                                })
                                .map_err(|e| format!("{e:?}")),
                            Op::CursorPos(id) => g
                                .cursor_pos(&VhostUserGpuCursorPos {
                                    scanout_id: *id,
                                    x: 7,
                                    y: 8,
                                })
                                .map_err(|e| format!("{e:?}")),
                            _ => Ok(()),
                        };
                        if let Err(e) = r {
                            let mut gd = bad.lock().unwrap();
                            if gd.is_none() {
                                *gd = Some(Violation::new("C10", "foreign_or_missing_reply", format!("{op:?}").split('(').next().unwrap_or(""), format!("caller {c} {op:?}: {e}")));
                            }
                            break;
                        }
                    }
                    drop(g);
                }));
            }
            drop(g);
        }
    }
    for t in tasks {
        sim.join(t);
    }
    sim.join(peer);
    if let Some(v) = peer_err.lock().unwrap().take() {
        sim.violation(v);
    }
    if let Some(v) = bad.lock().unwrap().take() {
        sim.violation(v);
    }
    RunOut {
        desc,
        nontrivial: false,
        sweep_key: None,
    }
}
