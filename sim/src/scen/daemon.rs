//! Daemon family: the real `VhostUserDaemon` (daemon thread + worker threads as simulator
//! tasks), a recording stub backend behind the library's Mutex / RwLock adapters, and a VMM
//! driven through the real `Frontend`.

use std::fs::File;
use std::os::unix::io::{AsRawFd, RawFd};
use std::os::unix::net::UnixStream;
use std::path::PathBuf;
use std::sync::atomic::{AtomicU64, Ordering};
use std::sync::{Arc, Mutex, RwLock};

use vhost::vhost_user::message::{VhostUserHeaderFlag, VhostUserProtocolFeatures};
use vhost::vhost_user::{Backend, Frontend, Listener, VhostUserFrontend};
use vhost::VhostBackend;
use vhost_user_backend::{VhostUserBackendMut, VhostUserDaemon, VringT};
use virtio_queue::QueueT;
use vm_memory::bitmap::Bitmap;
use vm_memory::{GuestMemoryAtomic, GuestMemoryMmap};
use vmm_sys_util::epoll::EventSet;
use vmm_sys_util::event::{new_event_consumer_and_notifier, EventConsumer, EventFlag, EventNotifier};

use crate::sched::{self, Sim};
use crate::spec::{self, pf};

pub type GM<B> = GuestMemoryAtomic<GuestMemoryMmap<B>>;

pub const VIRTIO_RING_F_EVENT_IDX: u64 = 1 << 29;
pub const VIRTIO_F_VERSION_1: u64 = 1 << 32;

#[derive(Clone, Debug, Default)]
pub struct RingSample {
    pub size: u16,
    pub ready: bool,
    pub next_avail: u16,
    pub next_used: u16,
    pub desc: u64,
    pub avail: u64,
    pub used: u64,
    pub event_idx: bool,
}

#[derive(Clone, Debug)]
pub struct Dispatch {
    pub seq: u64,
    pub device_event: u16,
    pub thread_id: usize,
    pub nvrings: usize,
    pub ring: Option<RingSample>,
}

#[derive(Default)]
pub struct Log {
    pub dispatches: Vec<Dispatch>,
    pub acked_features: Vec<u64>,
    pub event_idx: Vec<bool>,
    pub update_memory: u64,
    /// (guest address, size) of every region of the table as seen *inside* the latest
    /// update_memory callback
    pub update_memory_table: Vec<(u64, u64)>,
    pub reset_device: u64,
    pub backend_req: Vec<Backend>,
    pub set_config: Vec<(u32, Vec<u8>)>,
    pub exit_consumer_fds: Vec<RawFd>,
    /// (uuid, duplicate of the file handed out)
    pub shared_objects: Vec<([u8; 16], File)>,
    /// (direction, duplicate of the file received, duplicate of the file returned)
    pub device_state: Vec<(u32, File, Option<File>)>,
    pub check_device_state: u64,
    pub shmem_config: u64,
    pub get_config: Vec<(u32, u32)>,
}

#[derive(Clone)]
pub struct StubCfg {
    pub num_queues: usize,
    pub max_queue_size: usize,
    pub features: u64,
    pub protocol_features: u64,
    pub queues_per_thread: Vec<u64>,
    pub exit_events: bool,
    /// ring operations performed inside handle_event for queue events
    pub add_used_on_event: bool,
    pub fail_update_memory: bool,
    /// handle_event writes one byte into the last page of every guest memory region
    pub touch_memory_on_event: bool,
    /// handle_event advances the ring's next-available index by one (as processing a request would)
    pub advance_avail_on_event: bool,
    /// handle_event ends with signal_used_queue() on its ring (an interrupt per processed request)
    pub signal_on_event: bool,
}

impl Default for StubCfg {
    fn default() -> Self {
        StubCfg {
            num_queues: 2,
            max_queue_size: 256,
            features: spec::VHOST_USER_F_PROTOCOL_FEATURES | VIRTIO_RING_F_EVENT_IDX | VIRTIO_F_VERSION_1 | spec::VHOST_F_LOG_ALL,
            protocol_features: pf::MQ
                | pf::REPLY_ACK
                | pf::RESET_DEVICE
                | pf::CONFIGURE_MEM_SLOTS
                | pf::CONFIG
                | pf::BACKEND_REQ
                | pf::SHARED_OBJECT
                | pf::SHMEM,
            queues_per_thread: vec![0b11],
            exit_events: true,
            add_used_on_event: false,
            fail_update_memory: false,
            touch_memory_on_event: false,
            advance_avail_on_event: false,
            signal_on_event: false,
        }
    }
}

/// Callback run inside `handle_event` (under the scheduler token): used for in-place oracles.
pub type OnDispatch = Arc<dyn Fn(&Dispatch) + Send + Sync>;

pub struct StubMut<V, B: Bitmap + 'static> {
    pub cfg: StubCfg,
    pub log: Arc<Mutex<Log>>,
    pub exits: Vec<(EventConsumer, EventNotifier)>,
    pub mem: Option<GM<B>>,
    pub seq: Arc<dyn Fn() -> u64 + Send + Sync>,
    pub on_dispatch: Option<OnDispatch>,
    pub _v: std::marker::PhantomData<V>,
}

impl<V, B: Bitmap + 'static> StubMut<V, B> {
    pub fn new(cfg: StubCfg, sim: &Sim) -> Self {
        let mut exits = Vec::new();
        if cfg.exit_events {
            for _ in 0..cfg.queues_per_thread.len() {
                exits.push(new_event_consumer_and_notifier(EventFlag::NONBLOCK).expect("exit eventfd"));
            }
        }
        let s2 = sim.clone();
        StubMut {
            cfg,
            log: Arc::new(Mutex::new(Log::default())),
            exits,
            mem: None,
            seq: Arc::new(move || s2.seq()),
            on_dispatch: None,
            _v: std::marker::PhantomData,
        }
    }
}

impl<V, B> VhostUserBackendMut for StubMut<V, B>
where
    V: VringT<GM<B>> + Send + Sync,
    B: Bitmap + 'static + Send + Sync,
{
    type Bitmap = B;
    type Vring = V;

    fn num_queues(&self) -> usize {
        self.cfg.num_queues
    }
    fn max_queue_size(&self) -> usize {
        self.cfg.max_queue_size
    }
    fn features(&self) -> u64 {
        self.cfg.features
    }
    fn acked_features(&mut self, features: u64) {
        self.log.lock().unwrap().acked_features.push(features);
    }
    fn protocol_features(&self) -> VhostUserProtocolFeatures {
        VhostUserProtocolFeatures::from_bits_retain(self.cfg.protocol_features)
    }
    fn reset_device(&mut self) {
        self.log.lock().unwrap().reset_device += 1;
    }
    fn set_event_idx(&mut self, enabled: bool) {
        self.log.lock().unwrap().event_idx.push(enabled);
    }
    fn get_config(&self, offset: u32, size: u32) -> Vec<u8> {
        self.log.lock().unwrap().get_config.push((offset, size));
        (0..size).map(|i| (offset.wrapping_add(i) as u8) ^ 0x3c).collect()
    }
    fn get_shared_object(&mut self, uuid: vhost::vhost_user::message::VhostUserSharedMsg) -> std::io::Result<File> {
        let f = crate::fdu::memfd("sharedobj", 4096);
        let d = f.try_clone()?;
        self.log.lock().unwrap().shared_objects.push((*uuid.uuid.as_bytes(), d));
        Ok(f)
    }
    fn set_device_state_fd(
        &mut self,
        direction: vhost::vhost_user::message::VhostTransferStateDirection,
        _phase: vhost::vhost_user::message::VhostTransferStatePhase,
        file: File,
    ) -> std::io::Result<Option<File>> {
        // LOAD answers with a channel of the backend's own, SAVE uses the given one
        let ret = if direction as u32 == 1 { Some(crate::fdu::memfd("devstate", 4096)) } else { None };
        let rd = match &ret {
            Some(f) => Some(f.try_clone()?),
            None => None,
        };
        self.log.lock().unwrap().device_state.push((direction as u32, file, rd));
        Ok(ret)
    }
    fn check_device_state(&self) -> std::io::Result<()> {
        self.log.lock().unwrap().check_device_state += 1;
        Ok(())
    }
    fn get_shmem_config(&self) -> std::io::Result<vhost::vhost_user::message::VhostUserShMemConfig> {
        self.log.lock().unwrap().shmem_config += 1;
        Ok(vhost::vhost_user::message::VhostUserShMemConfig::new(3, &[0x1000, 0x22000, 0x333000]))
    }
    fn set_config(&mut self, offset: u32, buf: &[u8]) -> std::io::Result<()> {
        self.log.lock().unwrap().set_config.push((offset, buf.to_vec()));
        Ok(())
    }
    fn update_memory(&mut self, mem: GM<B>) -> std::io::Result<()> {
        if self.cfg.fail_update_memory {
            return Err(std::io::Error::other("scripted update_memory failure"));
        }
        let table: Vec<(u64, u64)> = {
            use vm_memory::{GuestAddressSpace, GuestMemory, GuestMemoryRegion};
            let mut v: Vec<(u64, u64)> = mem.memory().iter().map(|r| (r.start_addr().0, r.len())).collect();
            v.sort();
            v
        };
        self.mem = Some(mem);
        let mut g = self.log.lock().unwrap();
        g.update_memory += 1;
        g.update_memory_table = table;
        Ok(())
    }
    fn set_backend_req_fd(&mut self, backend: Backend) {
        self.log.lock().unwrap().backend_req.push(backend);
    }
    fn queues_per_thread(&self) -> Vec<u64> {
        self.cfg.queues_per_thread.clone()
    }
    fn exit_event(&self, thread_index: usize) -> Option<(EventConsumer, EventNotifier)> {
        let (c, n) = self.exits.get(thread_index)?;
        let c2 = c.try_clone().ok()?;
        // the library moves this consumer into its epoll set and never closes it; remember the
        // descriptor so that the harness can balance the fd table (out of scope of C09: it did
        // not arrive over a vhost-user socket)
        self.log.lock().unwrap().exit_consumer_fds.push(c2.as_raw_fd());
        Some((c2, n.try_clone().ok()?))
    }
    fn handle_event(&mut self, device_event: u16, _evset: EventSet, vrings: &[V], thread_id: usize) -> std::io::Result<()> {
        let ring = vrings.get(device_event as usize).map(|v| {
            let st = v.get_ref();
            let q = st.get_queue();
            RingSample {
                size: q.size(),
                ready: q.ready(),
                next_avail: q.next_avail(),
                next_used: q.next_used(),
                desc: q.desc_table(),
                avail: q.avail_ring(),
                used: q.used_ring(),
                event_idx: q.event_idx_enabled(),
            }
        });
        let d = Dispatch {
            seq: (self.seq)(),
            device_event,
            thread_id,
            nvrings: vrings.len(),
            ring,
        };
        if let Some(f) = &self.on_dispatch {
            f(&d);
        }
        self.log.lock().unwrap().dispatches.push(d);
        if self.cfg.touch_memory_on_event {
            if let Some(m) = &self.mem {
                use vm_memory::{Bytes, GuestAddressSpace, GuestMemory, GuestMemoryRegion};
                let snap = m.memory();
                let ends: Vec<u64> = snap.iter().map(|r| r.start_addr().0 + r.len() - 1).collect();
                for e in ends {
                    let _ = snap.write_slice(&[0xee], vm_memory::GuestAddress(e));
                }
            }
        }
        if self.cfg.advance_avail_on_event {
            if let Some(v) = vrings.get(device_event as usize) {
                sched::point("backend.processing");
                v.set_queue_next_avail(v.queue_next_avail().wrapping_add(1));
            }
        }
        if self.cfg.signal_on_event {
            if let Some(v) = vrings.get(device_event as usize) {
                sched::point("backend.before_signal");
                let _ = v.signal_used_queue();
            }
        }
        if self.cfg.add_used_on_event {
            if let Some(v) = vrings.get(device_event as usize) {
                let _ = v.add_used(0, 0x10);
                let _ = v.signal_used_queue();
            }
        }
        Ok(())
    }
}

#[derive(Clone, Copy, PartialEq, Debug)]
pub enum Adapter {
    Mutex,
    RwLock,
}

/// Swarm-style variation for the daemon family: in a third of the runs every socket call of the
/// library endpoints (the daemon's request connection, the real Frontend where one is used, the
/// backend-request channel) may be shortened by the simulator, as a kernel may do with any stream;
/// in a quarter a worker's epoll_wait may fail with EINTR (a signal), up to four times.
/// The properties of this family must hold regardless (C08 is the property about that).
pub fn swarm_short_io(sim: &Sim) {
    let (on, rate, eintr) = sim.with_w(|t| (t.chance(1, 3), 100 + t.draw(3) * 100, t.chance(1, 4)));
    let mut fc = crate::sched::FaultCfg::default();
    if on {
        fc.short_send = rate;
        fc.short_recv = rate;
        sim.probe("run_with_short_socket_io");
    }
    if eintr {
        // a signal may interrupt a worker's epoll_wait at any time: it has to go back to waiting
        fc.point_eintr = 300;
        fc.eintr_budget = 4;
        sim.probe("run_with_epoll_eintr");
    }
    sim.st().faults = fc;
}

pub static SOCK_COUNTER: AtomicU64 = AtomicU64::new(0);

pub fn sock_path() -> PathBuf {
    // under the parent's run directory (removed by the parent when the batch ends)
    let base = std::env::var("VSIM_RUN_DIR").unwrap_or_else(|_| format!("{}/target/run", crate::runner::VERIF));
    let d = PathBuf::from(format!("{base}/socks-{}", std::process::id()));
    let _ = std::fs::create_dir_all(&d);
    d.join(format!("s{}", SOCK_COUNTER.fetch_add(1, Ordering::Relaxed)))
}

/// One of the two library adapters around the stub.
pub enum AnyDaemon<V: VringT<GM<B>> + Clone + Send + Sync + 'static, B: Bitmap + 'static + Clone + Send + Sync> {
    M(VhostUserDaemon<Arc<Mutex<StubMut<V, B>>>>, Arc<Mutex<StubMut<V, B>>>),
    R(VhostUserDaemon<Arc<RwLock<StubMut<V, B>>>>, Arc<RwLock<StubMut<V, B>>>),
}

macro_rules! each {
    ($self:expr, $d:ident => $e:expr) => {
        match $self {
            AnyDaemon::M($d, _) => $e,
            AnyDaemon::R($d, _) => $e,
        }
    };
}

impl<V, B> AnyDaemon<V, B>
where
    V: VringT<GM<B>> + Clone + Send + Sync + 'static,
    B: Bitmap + 'static + Clone + Send + Sync + vhost_user_backend::bitmap::BitmapReplace + vm_memory::mmap::NewBitmap,
{
    pub fn new(adapter: Adapter, stub: StubMut<V, B>, mem: GM<B>) -> Self {
        match adapter {
            Adapter::Mutex => {
                let b = Arc::new(Mutex::new(stub));
                AnyDaemon::M(VhostUserDaemon::new("vsim-daemon".into(), b.clone(), mem).expect("daemon new"), b)
            }
            Adapter::RwLock => {
                let b = Arc::new(RwLock::new(stub));
                AnyDaemon::R(VhostUserDaemon::new("vsim-daemon".into(), b.clone(), mem).expect("daemon new"), b)
            }
        }
    }
    pub fn start(&mut self, l: &mut Listener) -> Result<(), String> {
        each!(self, d => d.start(l).map_err(|e| format!("{e:?}")))
    }
    pub fn wait(&mut self) -> Result<(), String> {
        each!(self, d => d.wait().map_err(|e| format!("{e:?}")))
    }
    pub fn shutdown_handle(&self) -> Option<vhost_user_backend::ShutdownHandle> {
        each!(self, d => d.shutdown_handle())
    }
    pub fn epoll_handlers(&self) -> usize {
        each!(self, d => d.get_epoll_handlers().len())
    }
    pub fn register_listener(&self, thread: usize, fd: RawFd, data: u64) -> std::io::Result<()> {
        each!(self, d => d.get_epoll_handlers()[thread].register_listener(fd, EventSet::IN, data))
    }
    /// Run `f` on the stub (under the adapter's lock; the caller must hold the token and no
    /// other task may be parked inside the backend).
    pub fn with_stub<R>(&self, f: impl FnOnce(&mut StubMut<V, B>) -> R) -> R {
        match self {
            AnyDaemon::M(_, b) => {
                crate::sched::wait_until(&|| b.try_lock().is_ok(), "harness.stub.lock");
                f(&mut b.lock().unwrap())
            }
            AnyDaemon::R(_, b) => {
                crate::sched::wait_until(&|| b.try_write().is_ok(), "harness.stub.lock");
                f(&mut b.write().unwrap())
            }
        }
    }
    pub fn log(&self) -> Arc<Mutex<Log>> {
        self.with_stub(|s| s.log.clone())
    }
}

/// Close the exit-event consumers the library leaked into its (now closed) epoll sets.
pub fn close_leaked_exit_consumers(log: &Arc<Mutex<Log>>) {
    let fds: Vec<RawFd> = std::mem::take(&mut log.lock().unwrap().exit_consumer_fds);
    for fd in fds {
        if let Ok(t) = std::fs::read_link(format!("/proc/self/fd/{fd}")) {
            if t.to_string_lossy().contains("eventfd") {
                // SAFETY: the library abandoned this descriptor; nobody else refers to it.
                unsafe { libc::close(fd) };
            }
        }
    }
}

pub struct Vmm {
    pub fe: Frontend,
    /// a second handle on the same connection, for messages the Frontend API cannot express
    /// (e.g. SET_VRING_CALL without a descriptor); only used between two API calls
    pub raw: UnixStream,
}

/// Connect a VMM to `listener` and start the daemon on that connection.
pub fn connect_and_start<V, B>(sim: &Sim, daemon: &mut AnyDaemon<V, B>, listener: &mut Listener, path: &PathBuf, maxq: u64) -> Result<Vmm, String>
where
    V: VringT<GM<B>> + Clone + Send + Sync + 'static,
    B: Bitmap + 'static + Clone + Send + Sync + vhost_user_backend::bitmap::BitmapReplace + vm_memory::mmap::NewBitmap,
{
    let sock = UnixStream::connect(path).map_err(|e| format!("connect: {e}"))?;
    sim.label_fd(sock.as_raw_fd(), "vmm");
    daemon.start(listener)?;
    let raw = sock.try_clone().map_err(|e| format!("clone: {e}"))?;
    sim.label_fd(raw.as_raw_fd(), "vmm");
    Ok(Vmm {
        fe: Frontend::from_stream(sock, maxq),
        raw,
    })
}

impl Vmm {
    /// GET_FEATURES / SET_FEATURES(features) / GET+SET_PROTOCOL_FEATURES(protos), optionally
    /// with NEED_REPLY on everything that follows.
    pub fn negotiate(&mut self, features: u64, protos: Option<u64>, need_reply: bool) -> Result<(), String> {
        let e = |x: vhost::Error| format!("{x:?}");
        let offered = self.fe.get_features().map_err(e)?;
        if let Some(p) = protos {
            let _ = self.fe.get_protocol_features().map_err(e)?;
            self.fe
                .set_protocol_features(VhostUserProtocolFeatures::from_bits_retain(p))
                .map_err(e)?;
        }
        self.fe.set_features(features & offered).map_err(e)?;
        if need_reply {
            self.fe.set_hdr_flags(VhostUserHeaderFlag::NEED_REPLY);
        }
        Ok(())
    }
}

pub fn file_of_eventfd(f: &File) -> RawFd {
    f.as_raw_fd()
}

// ------------------------------------------------------------------------------------------
// guest memory helpers (memfd-backed regions)
// ------------------------------------------------------------------------------------------

use std::os::unix::fs::FileExt;
use vhost::VhostUserMemoryRegionInfo;
use vm_memory::{Bytes, GuestAddress, GuestAddressSpace, GuestMemory, GuestMemoryRegion};

pub const PAGE: u64 = 0x1000;

#[derive(Clone, Debug)]
pub struct GRegion {
    pub gpa: u64,
    pub size: u64,
    pub uva: u64,
    pub off: u64,
    /// index into the file pool
    pub file: usize,
}

pub struct FilePool {
    pub files: Vec<(File, u64)>,
}

impl FilePool {
    pub fn new() -> Self {
        FilePool { files: Vec::new() }
    }
    pub fn add(&mut self, len: u64) -> usize {
        self.files.push((crate::fdu::memfd("guestmem", len), len));
        self.files.len() - 1
    }
    pub fn add_unmappable(&mut self) -> usize {
        self.files.push((crate::fdu::eventfd(true), 0));
        self.files.len() - 1
    }
    pub fn info(&self, r: &GRegion) -> VhostUserMemoryRegionInfo {
        VhostUserMemoryRegionInfo {
            guest_phys_addr: r.gpa,
            memory_size: r.size,
            userspace_addr: r.uva,
            mmap_offset: r.off,
            mmap_handle: self.files[r.file].0.as_raw_fd(),
        }
    }
    pub fn mappable(&self, r: &GRegion) -> bool {
        let (_, len) = &self.files[r.file];
        r.off.checked_add(r.size).map(|e| e <= *len).unwrap_or(false) && *len > 0
    }
    pub fn write(&self, r: &GRegion, o: u64, data: &[u8]) {
        self.files[r.file].0.write_all_at(data, r.off + o).expect("pwrite");
    }
    pub fn read(&self, r: &GRegion, o: u64, n: usize) -> Vec<u8> {
        let mut b = vec![0u8; n];
        self.files[r.file].0.read_exact_at(&mut b, r.off + o).expect("pread");
        b
    }
}

/// (start, len) of every region of the memory the backend currently sees.
pub fn snapshot_regions<B: Bitmap + 'static>(mem: &GM<B>) -> Vec<(u64, u64)> {
    let m = mem.memory();
    let mut v: Vec<(u64, u64)> = m.iter().map(|r| (r.start_addr().0, r.len())).collect();
    v.sort();
    v
}

pub fn gm_read<B: Bitmap + 'static>(mem: &GM<B>, gpa: u64, n: usize) -> Option<Vec<u8>> {
    let mut b = vec![0u8; n];
    mem.memory().read_slice(&mut b, GuestAddress(gpa)).ok().map(|_| b)
}

pub fn gm_write<B: Bitmap + 'static>(mem: &GM<B>, gpa: u64, data: &[u8]) -> bool {
    mem.memory().write_slice(data, GuestAddress(gpa)).is_ok()
}

pub fn overlaps(a: &GRegion, b: &GRegion) -> bool {
    a.gpa < b.gpa.saturating_add(b.size) && b.gpa < a.gpa.saturating_add(a.size)
}
