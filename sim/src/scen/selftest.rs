//! Scheduler self-test scenario: ping-pong over a socketpair with a racing counter.

use std::io::{Read, Write};
use std::os::unix::io::AsRawFd;
use std::os::unix::net::UnixStream;
use std::sync::{Arc, Mutex};

use super::*;
use crate::sched::{self, Sim};

pub fn def() -> PropDef {
    PropDef {
        id: "T00",
        run,
        quick_runs: 2000,
        thorough_runs: 20000,
        level: "exploration",
        rule: "scheduler self-test",
        assumptions: ASSUME,
        real: REAL_W,
        stubs: STUB_W,
        sweep_size: no_sweep,
        sweep_desc: "",
        panic_prop: "T00",
    }
}

fn run(sim: &Sim, _cfg: &RunCfg) -> RunOut {
    sim.choose_policy();
    let n = sim.with_w(|w| w.range(1, 5));
    let (a, b) = UnixStream::pair().unwrap();
    let order = Arc::new(Mutex::new(Vec::<u8>::new()));
    let o1 = order.clone();
    let o2 = order.clone();
    let t1 = sim.spawn("ping", "ping", move || {
        let mut a = a;
        for i in 0..n {
            sched::point("ping.loop");
            o1.lock().unwrap().push(b'a');
            sched::wait_fd(a.as_raw_fd(), true, "ping.write");
            a.write_all(&[i as u8]).unwrap();
            let mut buf = [0u8; 1];
            sched::wait_fd(a.as_raw_fd(), false, "ping.read");
            a.read_exact(&mut buf).unwrap();
        }
    });
    let t2 = sim.spawn("pong", "pong", move || {
        let mut b = b;
        for _ in 0..n {
            let mut buf = [0u8; 1];
            sched::wait_fd(b.as_raw_fd(), false, "pong.read");
            b.read_exact(&mut buf).unwrap();
            sched::point("pong.mid");
            o2.lock().unwrap().push(b'b');
            sched::wait_fd(b.as_raw_fd(), true, "pong.write");
            b.write_all(&buf).unwrap();
        }
    });
    let o3 = order.clone();
    let t3 = sim.spawn("noise", "noise", move || {
        for _ in 0..3 {
            sched::point("noise");
            o3.lock().unwrap().push(b'n');
        }
    });
    sim.join(t1);
    sim.join(t2);
    sim.join(t3);
    let s = String::from_utf8(order.lock().unwrap().clone()).unwrap();
    sim.note(&s);
    RunOut {
        desc: format!("n={n} order={s}"),
        nontrivial: true,
        sweep_key: None,
    }
}
