//! C14: ring configuration and negotiated features reach queues and backend unchanged.

use std::os::unix::io::AsRawFd;
use std::sync::{Arc, Mutex};

use vhost::vhost_user::message::{VhostUserHeaderFlag, VhostUserProtocolFeatures, VhostUserSharedMsg};
use vhost::vhost_user::{Listener, VhostUserFrontend, VhostUserFrontendReqHandler};
use vhost::{VhostBackend, VringConfigData};
use vhost_user_backend::{VringMutex, VringRwLock, VringT};
use vm_memory::{GuestMemoryAtomic, GuestMemoryMmap};
use vmm_sys_util::eventfd::EventFd;

use super::daemon::*;
use super::*;
use crate::fdu;
use crate::rng::Tape;
use crate::sched::{Sim, Violation};
use crate::spec::{self, pf};

#[derive(Clone, Debug)]
enum Op {
    SetNum(usize, u16),
    SetBase(usize, u16),
    /// (desc, avail, used) offsets inside region k (last field), used index value pre-written
    /// by the guest. The two regions are adjacent in the frontend's address space and far
    /// apart in guest-physical space, so offset 0 of region 1 is the boundary case.
    SetAddr(usize, u64, u64, u64, u16, usize),
    /// SET_VRING_ADDR with the descriptor table (0), available ring (1) or used ring (2) on the
    /// first byte after the last region: not translatable, must be refused
    AddrOutside(usize, u8),
    GetBase(usize),
    Kick(usize),
    SetFeatures(u64),
    /// RESET_DEVICE (false) or RESET_OWNER + SET_OWNER + SET_PROTOCOL_FEATURES (true), followed
    /// by a fresh SET_FEATURES with an offered mask and re-enabling of the rings
    Reset(bool, u64),
    SetCall(usize),
    /// SET_VRING_CALL without a descriptor: the ring has no call descriptor afterwards
    DropCall(usize),
    /// SET_PROTOCOL_FEATURES once more on the same connection, with the shared-object and
    /// shared-memory bits re-drawn: a channel attached afterwards follows the latest set
    Renegotiate(u64),
    /// SET_VRING_NUM with a size that does not fit 16 bits (the field is 32 bits wide on the
    /// wire; the Frontend API cannot send it): larger than any maximum, must be refused
    SetNumWide(usize, u32),
    SetKick(usize),
    ReplaceTable,
    /// per-ring message kind 0..7 with an out-of-range ring index
    BadIndex(u8, usize),
    BackendReq,
    /// device-level operations forwarded through the backend adapters: 0 GET_CONFIG,
    /// 1 SET_CONFIG, 2 GET_SHARED_OBJECT, 3 SET_DEVICE_STATE_FD, 4 CHECK_DEVICE_STATE,
    /// 5 GET_SHMEM_CONFIG, 6 GET_QUEUE_NUM / GET_MAX_MEM_SLOTS
    Device(u8, u32, u32),
}

pub fn def() -> PropDef {
    PropDef {
        id: "C14",
        run,
        quick_runs: 12000,
        thorough_runs: 1_200_000,
        level: "exploration",
        rule: "a live daemon (2 rings; Mutex or RwLock backend adapter; VringMutex or VringRwLock) driven by the real Frontend through 1..12 of {SET_VRING_NUM 0..=65535 (boundaries 0,1,2,3,255,256,257,512,65535, powers of two, random), SET_VRING_BASE, SET_VRING_ADDR with address triples inside the mapped regions and a guest-written used index 0..=65535, GET_VRING_BASE, guest kick (samples the queue inside handle_event, then add_used + signal_used_queue), SET_FEATURES with masks relative to a drawn offered mask, SET_VRING_CALL/KICK replacement, memory-table replacement, a per-ring message with ring index num_queues..=255 (and 256..=955 on the messages whose index is 32 bits wide), SET_BACKEND_REQ_FD followed by a proxy request}; the reference ring record is compared with the sampled queue accessors, GET_VRING_BASE results, acked_features/set_event_idx callbacks, used-ring bytes in the memfd of the latest table and the counter of the latest call eventfd; rejected messages end the connection, which is re-established; non-trivial = history has >= 2 steps",
        assumptions: ASSUME,
        real: REAL_D,
        stubs: STUB_D,
        sweep_size: no_sweep,
        sweep_desc: "",
        panic_prop: "C14",
    }
}

pub fn run(sim: &Sim, cfg: &RunCfg) -> RunOut {
    sim.choose_policy();
    swarm_short_io(sim);
    let rw = sim.with_w(|t| t.chance(1, 2));
    if rw {
        run_v::<VringRwLock<GM<()>>>(sim, cfg)
    } else {
        run_v::<VringMutex<GM<()>>>(sim, cfg)
    }
}

const REG_SIZE: u64 = 16 * PAGE;
const UVA0: u64 = 0x7f00_0000_0000;
const GPA0: u64 = 0x4000_0000;

#[derive(Clone, Debug)]
struct RingM {
    size: u16,
    next_avail: u16,
    next_used: u16,
    desc: u64,
    avail: u64,
    used: u64,
    /// index of the region the rings live in
    reg: usize,
    addr_table: u64,
    started: bool,
    call: Option<usize>,
}

fn gen_num(t: &mut Tape) -> u16 {
    match t.draw(4) {
        0 => *t.pick(&[0u16, 1, 2, 3, 255, 256, 257, 512, 65535]),
        1 => 1 << t.draw(16),
        2 => 1 << t.draw(9),
        _ => t.draw(65536) as u16,
    }
}

fn run_v<V: VringT<GM<()>> + Clone + Send + Sync + 'static>(sim: &Sim, _cfg: &RunCfg) -> RunOut {
    let nrings = 2usize;
    let (adapter, offered, protos, ops) = sim.with_w(|t| {
        let adapter = if t.chance(1, 2) { Adapter::Mutex } else { Adapter::RwLock };
        let mut offered = spec::VHOST_USER_F_PROTOCOL_FEATURES | VIRTIO_F_VERSION_1;
        if t.chance(2, 3) {
            offered |= VIRTIO_RING_F_EVENT_IDX;
        }
        offered |= t.lattice64() & 0x0000_ffff_0000_00ff;
        let mut protos = pf::MQ | pf::BACKEND_REQ | pf::CONFIGURE_MEM_SLOTS | pf::CONFIG | pf::DEVICE_STATE | pf::RESET_DEVICE;
        for b in [pf::REPLY_ACK, pf::SHARED_OBJECT, pf::SHMEM] {
            if t.chance(1, 2) {
                protos |= b;
            }
        }
        let n = t.range(1, 12);
        let mut ops = Vec::new();
        for _ in 0..n {
            let r = t.draw(nrings as u64) as usize;
            ops.push(match t.draw(22) {
                0 | 1 => Op::SetNum(r, gen_num(t)),
                2 => Op::SetBase(r, t.lattice32() as u16),
                3 | 4 => {
                    let d = t.draw(4) * 0x100;
                    let a = 0x1000 + t.draw(8) * 0x10;
                    // rings do not share their used ring
                    let u = 0x2000 + r as u64 * 0x6000 + t.draw(4) * 0x1000 + t.draw(4) * 4;
                    Op::SetAddr(r, d, a, u, t.lattice32() as u16, if t.chance(1, 3) { t.draw(8) } else { t.draw(2) } as usize)
                }
                17 => Op::AddrOutside(r, t.draw(3) as u8),
                18 => Op::DropCall(r),
                20 => {
                    let mut b = 0;
                    if t.chance(1, 2) {
                        b |= pf::SHARED_OBJECT;
                    }
                    if t.chance(1, 2) {
                        b |= pf::SHMEM;
                    }
                    Op::Renegotiate(b)
                }
                19 => {
                    let low = *t.pick(&[0u32, 1, 2, 16, 0x100, 0x8000, 0xffff]);
                    let high = *t.pick(&[1u32, 2, 0x100, 0x8000, 0xffff]);
                    Op::SetNumWide(r, (high << 16) | low)
                }
                5 => Op::GetBase(r),
                6 | 7 | 8 => Op::Kick(r),
                9 => {
                    let m = match t.draw(4) {
                        0 => offered,
                        1 => offered & !VIRTIO_RING_F_EVENT_IDX,
                        2 => offered & t.raw(),
                        _ => (offered & t.raw()) | (1u64 << t.draw(64)),
                    };
                    Op::SetFeatures(m)
                }
                10 => Op::SetCall(r),
                11 => Op::SetKick(r),
                12 => Op::ReplaceTable,
                13 => {
                    let kind = t.draw(8) as u8;
                    // beyond 255: half of them alias an existing ring in their low byte
                    let idx = match t.draw(6) {
                        0 => 256 * t.range(1, 3) as usize + t.draw(nrings as u64) as usize,
                        1 => nrings + 254 + t.draw(700) as usize,
                        _ => nrings + t.draw(254) as usize,
                    };
                    Op::BadIndex(kind, idx)
                }
                14 => Op::BackendReq,
                15 => {
                    let size = 1 + t.draw(64) as u32;
                    Op::Device(t.draw(7) as u8, t.draw((0x1000 - size) as u64) as u32, size)
                }
                16 => {
                    let m = match t.draw(3) {
                        0 => offered,
                        1 => offered & !VIRTIO_RING_F_EVENT_IDX,
                        _ => offered & t.raw(),
                    };
                    Op::Reset(t.chance(1, 2), m)
                }
                _ => Op::Kick(r),
            });
        }
        (adapter, offered, protos, ops)
    });
    let desc = format!(
        "adapter={adapter:?} vring={} offered={offered:#x} protocol={protos:#x} history={ops:x?}",
        std::any::type_name::<V>().rsplit("::").next().unwrap_or("")
    );
    crate::runner::set_desc(&desc);
    let viol = |clause: &str, keys: String, msg: String| -> ! { sim.violation(Violation::new("C14", clause, keys, msg)) };
    let max_q = 256usize;
    let stub = StubMut::<V, ()>::new(
        StubCfg {
            num_queues: nrings,
            max_queue_size: max_q,
            features: offered,
            protocol_features: pf::MQ | pf::BACKEND_REQ | pf::CONFIGURE_MEM_SLOTS | pf::REPLY_ACK | pf::SHARED_OBJECT | pf::SHMEM | pf::CONFIG | pf::DEVICE_STATE | pf::RESET_DEVICE,
            queues_per_thread: vec![0b11],
            add_used_on_event: true,
            ..Default::default()
        },
        sim,
    );
    let log = stub.log.clone();
    let mem = GuestMemoryAtomic::new(GuestMemoryMmap::<()>::new());
    let mut daemon = AnyDaemon::new(adapter, stub, mem);
    let path = sock_path();
    let mut listener = Listener::new(&path, true).expect("listener");
    let mut pool = FilePool::new();
    let mut table_gen = 0u64;
    let mut new_table = |pool: &mut FilePool, gen: u64| -> Vec<GRegion> {
        (0..2u64)
            .map(|i| GRegion {
                gpa: GPA0 + i * 0x100_0000,
                size: REG_SIZE,
                uva: UVA0 + gen * 0x1000_0000 + i * REG_SIZE,
                off: (1 + i) * PAGE,
                file: pool.add((1 + i) * PAGE + REG_SIZE),
            })
            .collect()
    };
    let mut table = new_table(&mut pool, table_gen);
    let mut kickfds: Vec<EventFd> = (0..nrings).map(|_| EventFd::new(libc::EFD_NONBLOCK).unwrap()).collect();
    let mut callfds: Vec<EventFd> = Vec::new();
    let mut acked_mask = offered & !spec::VHOST_USER_F_PROTOCOL_FEATURES;
    let mut m: Vec<RingM> = (0..nrings)
        .map(|_| RingM {
            size: max_q as u16,
            next_avail: 0,
            next_used: 0,
            desc: 0,
            avail: 0,
            used: 0,
            reg: 0,
            addr_table: u64::MAX,
            started: false,
            call: None,
        })
        .collect();
    // (re)connect: negotiate, install the table, (re)start every ring
    let connect = |daemon: &mut AnyDaemon<V, ()>, listener: &mut Listener, pool: &FilePool, table: &[GRegion], kickfds: &[EventFd], acked: u64, m: &mut Vec<RingM>| -> Vmm {
        let mut vmm = connect_and_start(sim, daemon, listener, &path, 1024).expect("start");
        let _ = vmm.fe.get_features().expect("get_features");
        let _ = vmm.fe.get_protocol_features().expect("get_protocol_features");
        vmm.fe.set_protocol_features(VhostUserProtocolFeatures::from_bits_retain(protos)).expect("set_protocol_features");
        vmm.fe.set_features(acked).expect("set_features");
        if protos & pf::REPLY_ACK != 0 {
            vmm.fe.set_hdr_flags(VhostUserHeaderFlag::NEED_REPLY);
        }
        let infos: Vec<_> = table.iter().map(|r| pool.info(r)).collect();
        vmm.fe.set_mem_table(&infos).expect("set_mem_table");
        for (r, k) in kickfds.iter().enumerate() {
            vmm.fe.set_vring_kick(r, k).expect("set_vring_kick");
            m[r].started = true;
            if acked & spec::VHOST_USER_F_PROTOCOL_FEATURES != 0 {
                vmm.fe.set_vring_enable(r, true).expect("set_vring_enable");
            }
        }
        vmm
    };
    let mut vmm = connect(&mut daemon, &mut listener, &pool, &table, &kickfds, acked_mask, &mut m);
    sim.settle();
    let mut features_calls = log.lock().unwrap().acked_features.len();
    // a control message whose outcome is known only with REPLY_ACK: without it the daemon's
    // verdict shows as the connection dying, which the next message would notice; keep it
    // simple and judge acceptance only when acknowledgements are on
    let acks = protos & pf::REPLY_ACK != 0;
    // the protocol features in force on the current connection (a renegotiation changes them)
    let cur = std::cell::Cell::new(protos);
    for (step, op) in ops.iter().enumerate() {
        let mut dead = false;
        match op {
            Op::SetNum(r, n) => {
                let res = vmm.fe.set_vring_num(*r, *n);
                let valid = *n >= 1 && (*n as usize) <= max_q && n.is_power_of_two();
                let must_reject = *n == 0 || (*n as usize) > max_q;
                if acks {
                    if must_reject && res.is_ok() {
                        viol("bad_ring_size_accepted", format!("{n}"), format!("step {step}: SET_VRING_NUM({r}, {n}) accepted; maximum is {max_q}"));
                    }
                    if valid && res.is_err() {
                        viol("valid_ring_size_rejected", format!("{n}"), format!("step {step}: SET_VRING_NUM({r}, {n}) rejected: {res:?}"));
                    }
                    if res.is_ok() {
                        // "after successful SET_VRING_NUM the ring has that size"
                        m[*r].size = *n;
                    }
                    dead = res.is_err();
                } else if valid {
                    m[*r].size = *n;
                } else {
                    // outcome not observable without acknowledgements: resynchronise by reconnecting
                    dead = true;
                }
            }
            Op::SetBase(r, n) => {
                if let Err(e) = vmm.fe.set_vring_base(*r, *n) {
                    viol("control_message_failed", "SET_VRING_BASE".into(), format!("step {step} {op:?}: {e:?}"));
                }
                m[*r].next_avail = *n;
            }
            Op::SetAddr(r, d, a, u, used_idx, k) => {
                // bit 0: region of the used ring; bits 1 and 2: descriptor table / available ring
                // in the other region (the three addresses are translated one by one)
                let ku = *k & 1;
                let kd = if *k & 2 != 0 { 1 - ku } else { ku };
                let ka = if *k & 4 != 0 { 1 - ku } else { ku };
                if kd != ku || ka != ku {
                    sim.probe("ring_parts_in_different_regions");
                }
                // the guest has written its used index before the address is installed
                pool.write(&table[ku], *u + 2, &used_idx.to_le_bytes());
                let cd = VringConfigData {
                    queue_max_size: max_q as u16,
                    queue_size: m[*r].size,
                    flags: 0,
                    desc_table_addr: table[kd].uva + d,
                    used_ring_addr: table[ku].uva + u,
                    avail_ring_addr: table[ka].uva + a,
                    log_addr: None,
                };
                if let Err(e) = vmm.fe.set_vring_addr(*r, &cd) {
                    viol("control_message_failed", "SET_VRING_ADDR".into(), format!("step {step} {op:?}: {e:?}"));
                }
                m[*r].desc = table[kd].gpa + d;
                m[*r].avail = table[ka].gpa + a;
                m[*r].used = table[ku].gpa + u;
                m[*r].reg = ku;
                m[*r].next_used = *used_idx;
                m[*r].addr_table = table_gen;
            }
            Op::AddrOutside(r, which) => {
                let end = table[1].uva + table[1].size;
                let mut cd = VringConfigData {
                    queue_max_size: max_q as u16,
                    queue_size: m[*r].size,
                    flags: 0,
                    desc_table_addr: table[0].uva,
                    used_ring_addr: table[0].uva + 0x2000,
                    avail_ring_addr: table[0].uva + 0x1000,
                    log_addr: None,
                };
                match which {
                    0 => cd.desc_table_addr = end,
                    1 => cd.avail_ring_addr = end,
                    _ => cd.used_ring_addr = end,
                }
                let res = vmm.fe.set_vring_addr(*r, &cd);
                if acks && res.is_ok() {
                    viol("untranslatable_ring_address_accepted", String::new(), format!("step {step}: {op:?}: {end:#x} is the first byte after the last region but SET_VRING_ADDR succeeded"));
                }
                // refused: the ring keeps what it had; the daemon closes
                dead = true;
            }
            Op::GetBase(r) => {
                match vmm.fe.get_vring_base(*r) {
                    Ok(v) if v == m[*r].next_avail as u32 => {}
                    other => viol("get_vring_base_value", String::new(), format!("step {step}: GET_VRING_BASE({r}) returned {other:?}, next-available index is {}", m[*r].next_avail)),
                }
                m[*r].started = false;
                m[*r].call = None;
            }
            Op::SetKick(r) => {
                let fd = EventFd::new(libc::EFD_NONBLOCK).unwrap();
                if let Err(e) = vmm.fe.set_vring_kick(*r, &fd) {
                    viol("control_message_failed", "SET_VRING_KICK".into(), format!("step {step} {op:?}: {e:?}"));
                }
                kickfds[*r] = fd;
                m[*r].started = true;
            }
            Op::SetCall(r) => {
                let fd = EventFd::new(libc::EFD_NONBLOCK).unwrap();
                if let Err(e) = vmm.fe.set_vring_call(*r, &fd) {
                    viol("control_message_failed", "SET_VRING_CALL".into(), format!("step {step} {op:?}: {e:?}"));
                }
                callfds.push(fd);
                m[*r].call = Some(callfds.len() - 1);
            }
            Op::Renegotiate(bits) => {
                let p = (protos & !(pf::SHARED_OBJECT | pf::SHMEM)) | bits;
                if let Err(e) = vmm.fe.set_protocol_features(VhostUserProtocolFeatures::from_bits_retain(p)) {
                    viol("control_message_failed", "SET_PROTOCOL_FEATURES".into(), format!("step {step} {op:?}: {e:?}"));
                }
                cur.set(p);
            }
            Op::SetNumWide(r, n) => {
                let req = spec::FReq::SetVringNum { idx: *r as u32, num: *n };
                let fd = vmm.raw.as_raw_fd();
                if fdu::raw_send_segmented(fd, &req.wire(acks), &[], &[], 0).is_err() {
                    viol("control_message_failed", "SET_VRING_NUM".into(), format!("step {step} {op:?}: send failed"));
                }
                if acks {
                    if let Ok((b, _)) = fdu::raw_recv_exact(fd, spec::HDR + 8, "vmm.recv") {
                        if b.len() == spec::HDR + 8 && spec::g64(&b, spec::HDR) == 0 {
                            viol("bad_ring_size_accepted", format!("{n:#x}"), format!("step {step}: SET_VRING_NUM({r}, {n:#x}) acknowledged as successful; maximum is {max_q}"));
                        }
                    }
                }
                // refused: the ring keeps its size (sampled at the next kick); the daemon closes
                dead = true;
            }
            Op::DropCall(r) => {
                // the Frontend API always passes a descriptor: raw bytes on the same connection
                let req = spec::FReq::SetVringCall { idx: *r as u8, nofd: true };
                let fd = vmm.raw.as_raw_fd();
                if fdu::raw_send_segmented(fd, &req.wire(acks), &[], &[], 0).is_err() {
                    viol("control_message_failed", "SET_VRING_CALL".into(), format!("step {step} {op:?}: send failed"));
                }
                if acks {
                    match fdu::raw_recv_exact(fd, spec::HDR + 8, "vmm.recv") {
                        Ok((b, _)) if b.len() == spec::HDR + 8 && spec::g64(&b, spec::HDR) == 0 => {}
                        other => viol("control_message_failed", "SET_VRING_CALL".into(), format!("step {step} {op:?}: not acknowledged with 0: {:?}", other.map(|x| x.0))),
                    }
                }
                m[*r].call = None;
            }
            Op::SetFeatures(mask) | Op::Reset(_, mask) => {
                if let Op::Reset(owner, _) = op {
                    // the reset forgets the negotiated features; what was configured on the
                    // rings stays, and the SET_FEATURES below must reach queues and backend
                    // exactly like the first one did
                    let r = if *owner {
                        vmm.fe
                            .reset_owner()
                            .and_then(|_| vmm.fe.set_owner())
                            .and_then(|_| {
                                cur.set(protos);
                                vmm.fe.set_protocol_features(VhostUserProtocolFeatures::from_bits_retain(protos))
                            })
                    } else {
                        vmm.fe.reset_device()
                    };
                    if let Err(e) = r {
                        viol("control_message_failed", "RESET".into(), format!("step {step} {op:?}: {e:?}"));
                    }
                }
                let res = vmm.fe.set_features(*mask);
                let subset = mask & !offered == 0;
                if acks {
                    if res.is_ok() != subset {
                        viol(
                            if subset { "offered_features_rejected" } else { "unoffered_features_accepted" },
                            String::new(),
                            format!("step {step}: SET_FEATURES({mask:#x}) returned {res:?}; offered {offered:#x}"),
                        );
                    }
                    dead = res.is_err();
                } else if !subset {
                    dead = true;
                }
                sim.settle();
                let g = log.lock().unwrap();
                if subset {
                    if g.acked_features.len() != features_calls + 1 || g.acked_features.last() != Some(mask) {
                        viol("acked_features_callback", String::new(), format!("step {step}: SET_FEATURES({mask:#x}): backend callbacks since: {:x?}", &g.acked_features[features_calls..]));
                    }
                    let ei = mask & VIRTIO_RING_F_EVENT_IDX != 0;
                    if g.event_idx.last() != Some(&ei) {
                        viol("event_idx_callback", String::new(), format!("step {step}: SET_FEATURES({mask:#x}): backend event_idx setting {:?}, expected {ei}", g.event_idx.last()));
                    }
                    acked_mask = *mask;
                } else if g.acked_features.len() != features_calls {
                    viol("rejected_features_reached_backend", String::new(), format!("step {step}: SET_FEATURES({mask:#x}) is not a subset of {offered:#x} but the backend was told {:x?}", g.acked_features.last()));
                }
                features_calls = g.acked_features.len();
                drop(g);
                if subset && !dead && mask & spec::VHOST_USER_F_PROTOCOL_FEATURES != 0 {
                    for r in 0..nrings {
                        vmm.fe.set_vring_enable(r, true).expect("set_vring_enable");
                    }
                }
            }
            Op::ReplaceTable => {
                table_gen += 1;
                table = new_table(&mut pool, table_gen);
                let infos: Vec<_> = table.iter().map(|r| pool.info(r)).collect();
                if let Err(e) = vmm.fe.set_mem_table(&infos) {
                    viol("control_message_failed", "SET_MEM_TABLE".into(), format!("step {step}: {e:?}"));
                }
            }
            Op::BadIndex(kind, idx) => {
                let fd = EventFd::new(libc::EFD_NONBLOCK).unwrap();
                let cd = VringConfigData {
                    queue_max_size: 256,
                    queue_size: 256,
                    flags: 0,
                    desc_table_addr: table[0].uva,
                    used_ring_addr: table[0].uva + 0x2000,
                    avail_ring_addr: table[0].uva + 0x1000,
                    log_addr: None,
                };
                // the descriptor-carrying messages encode the ring index in 8 bits
                let idx8 = nrings + (*idx - nrings) % 254;
                let idx = if (4..=6).contains(kind) { &idx8 } else { idx };
                let (name, res) = match kind {
                    0 => ("SET_VRING_NUM", vmm.fe.set_vring_num(*idx, 64)),
                    1 => ("SET_VRING_BASE", vmm.fe.set_vring_base(*idx, 1)),
                    2 => ("SET_VRING_ADDR", vmm.fe.set_vring_addr(*idx, &cd)),
                    3 => ("GET_VRING_BASE", vmm.fe.get_vring_base(*idx).map(|_| ())),
                    4 => ("SET_VRING_KICK", vmm.fe.set_vring_kick(*idx, &fd)),
                    5 => ("SET_VRING_CALL", vmm.fe.set_vring_call(*idx, &fd)),
                    6 => ("SET_VRING_ERR", vmm.fe.set_vring_err(*idx, &fd)),
                    _ => {
                        if acked_mask & spec::VHOST_USER_F_PROTOCOL_FEATURES != 0 {
                            ("SET_VRING_ENABLE", vmm.fe.set_vring_enable(*idx, true))
                        } else {
                            ("SET_VRING_NUM", vmm.fe.set_vring_num(*idx, 64))
                        }
                    }
                };
                let replied = acks || name == "GET_VRING_BASE";
                if replied && res.is_ok() {
                    viol("out_of_range_ring_index_accepted", name.to_string(), format!("step {step}: {name} with ring index {idx} (device has {nrings} rings) was accepted"));
                }
                dead = true;
            }
            Op::BackendReq => {
                let (a, b) = fdu::sockpair();
                if let Err(e) = vmm.fe.set_backend_request_fd(&a) {
                    viol("control_message_failed", "SET_BACKEND_REQ_FD".into(), format!("step {step}: {e:?}"));
                }
                drop(a);
                sim.settle();
                let be = log.lock().unwrap().backend_req.pop();
                match be {
                    None => viol("backend_req_channel_not_delivered", String::new(), format!("step {step}: the backend did not receive the request channel")),
                    Some(be) => {
                        // one shared-object request and one shared-memory request: each must be
                        // sent iff its own feature was negotiated, with NEED_REPLY iff REPLY_ACK
                        let out = Arc::new(Mutex::new((None, None)));
                        let o2 = out.clone();
                        let dev = sim.spawn("device", "device", move || {
                            let mut u = [0x5au8; 16];
                            u[0] = 1;
                            let r1 = be.shared_object_add(&VhostUserSharedMsg { uuid: uuid::Uuid::from_bytes(u) });
                            let r2 = be.shmem_unmap(&vhost::vhost_user::message::VhostUserMMap {
                                shmid: 1,
                                padding: [0; 7],
                                fd_offset: 0,
                                shm_offset: 0x1000,
                                len: 0x2000,
                                flags: 0,
                            });
                            *o2.lock().unwrap() = (Some(r1.is_ok()), Some(r2.is_ok()));
                            drop(be);
                        });
                        let so = cur.get() & pf::SHARED_OBJECT != 0;
                        let sh = cur.get() & pf::SHMEM != 0;
                        let ra = cur.get() & pf::REPLY_ACK != 0;
                        for (on, size, code, what) in [(so, 16usize, spec::br::SHARED_OBJECT_ADD, "SHARED_OBJECT"), (sh, 40, spec::br::SHMEM_UNMAP, "SHMEM")] {
                            if !on {
                                continue;
                            }
                            match fdu::raw_recv_exact(b.as_raw_fd(), spec::HDR + size, "vmm.backend_req.recv") {
                                Ok((bytes, _)) if bytes.len() == spec::HDR + size && spec::parse_hdr(&bytes).code == code => {
                                    let h = spec::parse_hdr(&bytes);
                                    let nr = h.flags & spec::F_NEED_REPLY != 0;
                                    if nr != ra {
                                        viol("backend_req_reply_ack_not_inherited", String::new(), format!("step {step}: proxy request has NEED_REPLY={nr} although REPLY_ACK negotiated={ra}"));
                                    }
                                    if nr {
                                        let ack = spec::message(h.code, spec::VERSION | spec::F_REPLY, &0u64.to_le_bytes());
                                        let _ = fdu::raw_send_segmented(b.as_raw_fd(), &ack, &[], &[], 0);
                                    }
                                }
                                other => viol(
                                    "backend_req_not_sent",
                                    what.to_string(),
                                    format!("step {step}: {what} negotiated but the proxy wrote {:?}", other.map(|(b, _)| b)),
                                ),
                            }
                        }
                        sim.join(dev);
                        let (ok1, ok2) = *out.lock().unwrap();
                        if ok1 != Some(so) {
                            viol("backend_req_shared_object_not_inherited", String::new(), format!("step {step}: shared-object request returned ok={ok1:?} although SHARED_OBJECT negotiated={so}"));
                        }
                        if ok2 != Some(sh) {
                            viol("backend_req_shmem_not_inherited", String::new(), format!("step {step}: shared-memory request returned ok={ok2:?} although SHMEM negotiated={sh}"));
                        }
                        if fdu::fionread(b.as_raw_fd()) != 0 {
                            viol("backend_req_gated_request_sent", String::new(), format!("step {step}: bytes of a request whose feature is not negotiated were written (SHARED_OBJECT={so} SHMEM={sh})"));
                        }
                    }
                }
                drop(b);
            }
            Op::Device(kind, off, size) => {
                use vhost::vhost_user::message::{VhostTransferStateDirection, VhostTransferStatePhase, VhostUserConfigFlags};
                let bad = |what: &str, msg: String| -> ! { viol("device_operation_passthrough", what.to_string(), format!("step {step} {op:?}: {msg}")) };
                match kind {
                    0 => {
                        let buf = vec![0u8; *size as usize];
                        match vmm.fe.get_config(*off, *size, VhostUserConfigFlags::WRITABLE, &buf) {
                            Ok((_, p)) => {
                                let want: Vec<u8> = (0..*size).map(|i| (off.wrapping_add(i) as u8) ^ 0x3c).collect();
                                if p != want || log.lock().unwrap().get_config.last() != Some(&(*off, *size)) {
                                    bad("GET_CONFIG", format!("payload {:02x?} / backend saw {:?}", &p[..p.len().min(8)], log.lock().unwrap().get_config.last()));
                                }
                            }
                            Err(e) => bad("GET_CONFIG", format!("{e:?}")),
                        }
                    }
                    1 => {
                        let buf: Vec<u8> = (0..*size).map(|i| (i as u8).wrapping_mul(7) ^ (*off as u8)).collect();
                        if let Err(e) = vmm.fe.set_config(*off, VhostUserConfigFlags::WRITABLE, &buf) {
                            bad("SET_CONFIG", format!("{e:?}"));
                        }
                        sim.settle();
                        if log.lock().unwrap().set_config.last() != Some(&(*off, buf.clone())) {
                            bad("SET_CONFIG", "backend did not receive (offset, bytes) as sent".into());
                        }
                    }
                    2 if cur.get() & pf::SHARED_OBJECT != 0 => {
                        let mut u = [0x77u8; 16];
                        u[0] = *off as u8;
                        u[1] = *size as u8;
                        match vmm.fe.get_shared_object(&VhostUserSharedMsg { uuid: uuid::Uuid::from_bytes(u) }) {
                            Ok(f) => {
                                let g = log.lock().unwrap();
                                match g.shared_objects.last() {
                                    Some((lu, lf)) if *lu == u && fdu::same_open_file(lf.as_raw_fd(), f.as_raw_fd()) => {}
                                    _ => bad("GET_SHARED_OBJECT", "uuid or file differ from what the backend saw / returned".into()),
                                }
                            }
                            Err(e) => bad("GET_SHARED_OBJECT", format!("{e:?}")),
                        }
                    }
                    3 => {
                        let dir = if off % 2 == 0 { VhostTransferStateDirection::SAVE } else { VhostTransferStateDirection::LOAD };
                        let f = fdu::memfd("statepipe", 4096);
                        let dup: std::os::fd::OwnedFd = f.try_clone().unwrap().into();
                        match vmm.fe.set_device_state_fd(dir, VhostTransferStatePhase::STOPPED, dup) {
                            Ok(ret) => {
                                let g = log.lock().unwrap();
                                match g.device_state.last() {
                                    Some((d, got, back)) => {
                                        let ok = *d == dir as u32
                                            && fdu::same_open_file(got.as_raw_fd(), f.as_raw_fd())
                                            && match (&ret, back) {
                                                (Some(a), Some(b)) => fdu::same_open_file(a.as_raw_fd(), b.as_raw_fd()),
                                                (None, None) => true,
                                                _ => false,
                                            };
                                        if !ok {
                                            bad("SET_DEVICE_STATE_FD", "direction, passed file or returned file differ".into());
                                        }
                                    }
                                    None => bad("SET_DEVICE_STATE_FD", "backend not invoked".into()),
                                }
                            }
                            Err(e) => bad("SET_DEVICE_STATE_FD", format!("{e:?}")),
                        }
                    }
                    4 => {
                        let n0 = log.lock().unwrap().check_device_state;
                        if let Err(e) = vmm.fe.check_device_state() {
                            bad("CHECK_DEVICE_STATE", format!("{e:?}"));
                        }
                        if log.lock().unwrap().check_device_state != n0 + 1 {
                            bad("CHECK_DEVICE_STATE", "backend not invoked exactly once".into());
                        }
                    }
                    5 if cur.get() & pf::SHMEM != 0 => match vmm.fe.get_shmem_config() {
                        Ok(c) if c.nregions == 3 && c.memory_sizes[..3] == [0x1000, 0x22000, 0x333000] && c.memory_sizes[3..].iter().all(|x| *x == 0) => {}
                        other => bad("GET_SHMEM_CONFIG", format!("{:?}", other.map(|c| (c.nregions, c.memory_sizes[..4].to_vec())))),
                    },
                    6 => {
                        match vmm.fe.get_queue_num() {
                            Ok(n) if n == nrings as u64 => {}
                            other => bad("GET_QUEUE_NUM", format!("{other:?}")),
                        }
                        // the frontend remembers the queue count: keep its limit wide for the
                        // out-of-range index probes
                        match vmm.fe.get_max_mem_slots() {
                            Ok(n) if n > 0 => {}
                            other => bad("GET_MAX_MEM_SLOTS", format!("{other:?}")),
                        }
                        // get_queue_num() narrowed the frontend's own index limit to nrings
                        dead = true;
                    }
                    _ => {}
                }
            }
            Op::Kick(r) => {
                if !m[*r].started {
                    continue;
                }
                // without REPLY_ACK earlier control messages may still be in flight
                sim.settle();
                let n0 = log.lock().unwrap().dispatches.len();
                let call_before: Vec<u64> = callfds.iter().map(|f| f.read().unwrap_or(0)).collect();
                let _ = call_before;
                crate::sched::point("guest.before_kick");
                kickfds[*r].write(1).expect("kick");
                sim.settle();
                let d = log.lock().unwrap().dispatches.get(n0).cloned();
                let s = match d.and_then(|d| d.ring) {
                    Some(s) => s,
                    None => viol("kick_not_dispatched", String::new(), format!("step {step}: kick on ring {r} (started, enabled) was not dispatched")),
                };
                let mr = &m[*r];
                let ei = acked_mask & VIRTIO_RING_F_EVENT_IDX != 0;
                if s.size != mr.size || s.next_avail != mr.next_avail || s.next_used != mr.next_used || s.event_idx != ei || !s.ready {
                    viol(
                        "queue_state_differs",
                        String::new(),
                        format!("step {step}: ring {r} sampled {s:x?}; reference: size {} next_avail {} next_used {} event_idx {ei}", mr.size, mr.next_avail, mr.next_used),
                    );
                }
                if mr.addr_table != u64::MAX && (s.desc, s.avail, s.used) != (mr.desc, mr.avail, mr.used) {
                    viol("queue_addresses_differ", String::new(), format!("step {step}: ring {r} sampled {s:x?}; reference addresses {:#x} {:#x} {:#x}", mr.desc, mr.avail, mr.used));
                }
                // add_used + signal_used_queue by the stub backend. The guest addresses of the
                // rings are the same in every generated table, so once addresses were installed
                // the used ring lives in whatever table is the latest.
                if mr.addr_table != u64::MAX {
                    let off = mr.used - table[mr.reg].gpa;
                    let idx = u16::from_le_bytes(pool.read(&table[mr.reg], off + 2, 2).try_into().unwrap());
                    if idx != mr.next_used.wrapping_add(1) {
                        viol("used_ring_not_in_latest_table", String::new(), format!("step {step}: used index in the latest table's file is {idx}, expected {}", mr.next_used.wrapping_add(1)));
                    }
                    m[*r].next_used = m[*r].next_used.wrapping_add(1);
                }
                for (i, f) in callfds.iter().enumerate() {
                    let c = f.read().unwrap_or(0);
                    let want = (m[*r].call == Some(i)) as u64;
                    if c != want {
                        viol("call_descriptor_signalling", String::new(), format!("step {step}: call eventfd #{i} counter {c}, expected {want} (ring {r} latest call fd is {:?})", m[*r].call));
                    }
                }
            }
        }
        if !acks {
            // without REPLY_ACK a call returns before the daemon has processed the message
            sim.settle();
        }
        if dead {
            drop(vmm);
            let _ = daemon.wait();
            // a reconnecting VMM installs its kick descriptors again; call descriptors survive
            vmm = connect(&mut daemon, &mut listener, &pool, &table, &kickfds, acked_mask, &mut m);
            cur.set(protos);
            for r in m.iter_mut() {
                if r.addr_table != table_gen {
                    r.addr_table = r.addr_table.min(u64::MAX);
                }
            }
            sim.probe("reconnect_after_rejected_message");
            sim.settle();
            features_calls = log.lock().unwrap().acked_features.len();
        }
    }
    drop(vmm);
    let _ = daemon.wait();
    drop(daemon);
    close_leaked_exit_consumers(&log);
    drop(listener);
    log.lock().unwrap().backend_req.clear();
    RunOut {
        desc,
        nontrivial: ops.len() >= 2,
        sweep_key: None,
    }
}
