//! C11: vring state follows the protocol; kicks are dispatched iff started and enabled.
//! The VMM waits for quiescence after every message, so this is about the state machine;
//! races are C12.

use std::os::unix::io::AsRawFd;

use vhost::vhost_user::{Listener, VhostUserFrontend};
use vhost::VhostBackend;
use vhost_user_backend::{VringMutex, VringRwLock, VringT};
use vm_memory::{GuestMemoryAtomic, GuestMemoryMmap};
use vmm_sys_util::eventfd::EventFd;

use super::daemon::*;
use super::*;
use crate::rng::Tape;
use crate::sched::{Sim, Violation};
use crate::spec::{self, pf};

#[derive(Clone, Copy, Debug, PartialEq)]
pub enum Op {
    SetFeaturesNoPf,
    SetFeaturesPf,
    Kickfd(usize),
    Callfd(usize),
    Enable(usize, bool),
    GetBase(usize),
    Reset,
    Kick(usize),
    SetBase(usize, u16),
    SetNum(usize, u16),
    /// the guest writes to a kick eventfd that the ring no longer uses (dropped by
    /// GET_VRING_BASE or replaced); judged only while the ring is inactive
    KickOld(usize),
    /// SET_VRING_KICK without a descriptor (bit 8 of the index word; raw bytes, the Frontend API
    /// always passes one): the ring has no current kick descriptor afterwards, whatever is
    /// raised on the one it gave up must not reach the backend
    KickNofd(usize),
    /// SET_VRING_ERR: carries a descriptor like SET_VRING_KICK / SET_VRING_CALL but has no part
    /// in the ring's state
    Errfd(usize),
    /// RESET_OWNER + SET_OWNER: forgets the negotiated features, is no ring-disabling message
    ResetOwner,
    /// SET_PROTOCOL_FEATURES once more while rings are live: no part in the rings' state
    ProtoAgain,
}

const ALPHA1: [Op; 9] = [
    Op::SetFeaturesNoPf,
    Op::SetFeaturesPf,
    Op::Kickfd(0),
    Op::Enable(0, true),
    Op::Enable(0, false),
    Op::GetBase(0),
    Op::Reset,
    Op::Kick(0),
    Op::KickNofd(0),
];

/// number of histories of length 1..=3 over ALPHA1
pub const SWEEP: u64 = 9 + 81 + 729;

fn sweep_history(mut i: u64) -> Vec<Op> {
    let mut len = 1;
    let mut block = 9;
    while i >= block {
        i -= block;
        block *= 9;
        len += 1;
    }
    let mut v = Vec::new();
    for _ in 0..len {
        v.push(ALPHA1[(i % 9) as usize]);
        i /= 9;
    }
    v
}

fn gen_history(t: &mut Tape, nrings: usize, deep: bool) -> Vec<Op> {
    let n = t.range(1, if deep { 30 } else { 14 });
    let mut v = Vec::new();
    for _ in 0..n {
        let r = t.draw(nrings as u64) as usize;
        v.push(match t.draw(18) {
            14 => Op::KickNofd(r),
            15 => Op::Errfd(r),
            16 => Op::ResetOwner,
            17 => Op::ProtoAgain,
            0 => Op::SetFeaturesNoPf,
            1 => Op::SetFeaturesPf,
            2 | 3 => Op::Kickfd(r),
            4 => Op::Callfd(r),
            5 | 6 => Op::Enable(r, true),
            7 => Op::Enable(r, false),
            8 => Op::GetBase(r),
            9 => Op::Reset,
            10 | 11 => Op::Kick(r),
            12 => {
                if t.chance(1, 2) {
                    Op::Kick(r)
                } else {
                    Op::KickOld(r)
                }
            }
            _ => {
                if t.chance(1, 2) {
                    Op::SetBase(r, t.draw(65536) as u16)
                } else {
                    Op::SetNum(r, 1 << t.draw(9))
                }
            }
        });
    }
    v
}

#[derive(Clone, Default, Debug)]
struct RingM {
    started: bool,
    enabled: bool,
    pending: bool,
    has_kick: bool,
    base: u16,
}

pub fn def() -> PropDef {
    PropDef {
        id: "C11",
        run,
        quick_runs: 20000,
        thorough_runs: 1_500_000,
        level: "exploration",
        rule: "a live daemon (2 rings, one or two workers, VringMutex or VringRwLock, Mutex or RwLock backend adapter) driven by the real Frontend through a control-message history; index < 819 enumerates every history of length 1..3 over {SET_FEATURES without/with PROTOCOL_FEATURES, SET_VRING_KICK with a new descriptor, SET_VRING_KICK without a descriptor, ENABLE 1, ENABLE 0, GET_VRING_BASE, RESET_DEVICE, guest kick} on ring 0; beyond that seeded histories of 1..14 steps on both rings incl. SET_VRING_CALL/ERR/BASE/NUM, RESET_OWNER + SET_OWNER, a repeated SET_PROTOCOL_FEATURES and guest kicks on descriptors the ring gave up; after every step the harness waits for quiescence (nothing can happen later without an external event) and compares the backend's handle_event log and GET_VRING_BASE results with a reference ring state machine; distinct = distinct (workload tape, interleaving, fault trace); non-trivial = history has >= 2 steps",
        assumptions: ASSUME,
        real: REAL_D,
        stubs: STUB_D,
        sweep_size: |_| SWEEP,
        sweep_desc: "every control history of length 1..3 over the 9-letter reduced alphabet on one ring",
        panic_prop: "C11",
    }
}

pub fn run(sim: &Sim, cfg: &RunCfg) -> RunOut {
    sim.choose_policy();
    swarm_short_io(sim);
    let rw = sim.with_w(|t| t.chance(1, 2));
    if rw {
        run_v::<VringRwLock<GM<()>>>(sim, cfg)
    } else {
        run_v::<VringMutex<GM<()>>>(sim, cfg)
    }
}

pub fn ring_of(masks: &[u64], thread: usize, ev: u16) -> Option<usize> {
    let m = *masks.get(thread)?;
    let mut rank = 0;
    for q in 0..64 {
        if (m >> q) & 1 == 1 {
            if rank == ev as usize {
                return Some(q);
            }
            rank += 1;
        }
    }
    None
}

fn run_v<V: VringT<GM<()>> + Clone + Send + Sync + 'static>(sim: &Sim, cfg: &RunCfg) -> RunOut {
    let nrings = 2usize;
    let (adapter, masks, nonblock, hist, sweep_key) = sim.with_w(|t| {
        let adapter = if t.chance(1, 2) { Adapter::Mutex } else { Adapter::RwLock };
        let masks: Vec<u64> = if t.chance(1, 2) { vec![0b11] } else { vec![0b01, 0b10] };
        let nonblock = t.chance(1, 2);
        let (hist, key) = if cfg.index < SWEEP {
            (sweep_history(cfg.index), Some(cfg.index))
        } else {
            (gen_history(t, nrings, cfg.tier == Tier::Thorough), None)
        };
        (adapter, masks, nonblock, hist, key)
    });
    let desc = format!("adapter={adapter:?} vring={} masks={masks:?} nonblocking_kick_fds={nonblock} history={hist:?}", std::any::type_name::<V>().rsplit("::").next().unwrap_or(""));
    crate::runner::set_desc(&desc);
    let stub = StubMut::<V, ()>::new(
        StubCfg {
            num_queues: nrings,
            queues_per_thread: masks.clone(),
            ..Default::default()
        },
        sim,
    );
    let log = stub.log.clone();
    let mem = GuestMemoryAtomic::new(GuestMemoryMmap::<()>::new());
    let mut daemon = AnyDaemon::new(adapter, stub, mem);
    let path = sock_path();
    let mut listener = Listener::new(&path, true).expect("listener");
    let mut vmm = connect_and_start(sim, &mut daemon, &mut listener, &path, nrings as u64).expect("start");
    let viol = |clause: &str, keys: String, msg: String| -> ! { sim.violation(Violation::new("C11", clause, keys, msg)) };

    // the VMM learns the offered features once; protocol features are negotiated the first time
    // VHOST_USER_F_PROTOCOL_FEATURES is acknowledged
    let offered = vmm.fe.get_features().expect("get_features");
    let mut proto_done = false;
    let mut fe_pf_acked = false;
    let mut m: Vec<RingM> = vec![RingM::default(); nrings];
    let mut kickfds: Vec<Option<EventFd>> = (0..nrings).map(|_| None).collect();
    let mut callfds: Vec<Option<EventFd>> = (0..nrings).map(|_| None).collect();
    let mut oldfds: Vec<Vec<EventFd>> = (0..nrings).map(|_| Vec::new()).collect();
    let mut errfds: Vec<EventFd> = Vec::new();
    {
        // an event storm for an inactive ring never reaches quiescence: that is a violation
        let mut st = sim.st();
        st.cap_clause = Some("livelock");
        st.step_cap = 8000;
    }
    let mut seen = 0usize;
    sim.settle();
    for (step, op) in hist.iter().enumerate() {
        let mut skipped = false;
        match *op {
            Op::SetFeaturesNoPf => {
                let r = vmm.fe.set_features(offered & !spec::VHOST_USER_F_PROTOCOL_FEATURES);
                if let Err(e) = r {
                    viol("control_message_failed", format!("{op:?}"), format!("step {step} {op:?}: {e:?}"));
                }
                fe_pf_acked = false;
                for r in m.iter_mut() {
                    r.enabled = true;
                }
            }
            Op::SetFeaturesPf => {
                if !proto_done {
                    let _ = vmm.fe.get_protocol_features().expect("get_protocol_features");
                    vmm.fe
                        .set_protocol_features(vhost::vhost_user::message::VhostUserProtocolFeatures::from_bits_retain(pf::RESET_DEVICE | pf::MQ))
                        .expect("set_protocol_features");
                    proto_done = true;
                }
                if let Err(e) = vmm.fe.set_features(offered) {
                    viol("control_message_failed", format!("{op:?}"), format!("step {step} {op:?}: {e:?}"));
                }
                fe_pf_acked = true;
            }
            Op::Kickfd(r) => {
                let fd = EventFd::new(if nonblock { libc::EFD_NONBLOCK } else { 0 }).expect("eventfd");
                if let Err(e) = vmm.fe.set_vring_kick(r, &fd) {
                    viol("control_message_failed", format!("{op:?}"), format!("step {step} {op:?}: {e:?}"));
                }
                if let Some(old) = kickfds[r].replace(fd) {
                    oldfds[r].push(old);
                }
                m[r].has_kick = true;
                m[r].pending = false;
                m[r].started = true;
            }
            Op::Callfd(r) => {
                let fd = EventFd::new(libc::EFD_NONBLOCK).expect("eventfd");
                if let Err(e) = vmm.fe.set_vring_call(r, &fd) {
                    viol("control_message_failed", format!("{op:?}"), format!("step {step} {op:?}: {e:?}"));
                }
                callfds[r] = Some(fd);
            }
            Op::Enable(r, on) => {
                if !fe_pf_acked {
                    skipped = true;
                } else {
                    if let Err(e) = vmm.fe.set_vring_enable(r, on) {
                        viol("control_message_failed", format!("{op:?}"), format!("step {step} {op:?}: {e:?}"));
                    }
                    m[r].enabled = on;
                }
            }
            Op::GetBase(r) => {
                match vmm.fe.get_vring_base(r) {
                    Ok(v) => {
                        if v != m[r].base as u32 {
                            viol(
                                "get_vring_base_value",
                                format!("ring{r}"),
                                format!("step {step}: GET_VRING_BASE({r}) returned {v}, next-available index is {}", m[r].base),
                            );
                        }
                    }
                    Err(e) => viol("control_message_failed", format!("{op:?}"), format!("step {step} {op:?}: {e:?}")),
                }
                m[r].started = false;
                m[r].has_kick = false;
                m[r].pending = false;
                if let Some(old) = kickfds[r].take() {
                    oldfds[r].push(old);
                }
            }
            Op::ResetOwner => {
                if let Err(e) = vmm.fe.reset_owner().and_then(|_| vmm.fe.set_owner()) {
                    viol("control_message_failed", format!("{op:?}"), format!("step {step} {op:?}: {e:?}"));
                }
                // features have to be negotiated again before feature-dependent messages
                fe_pf_acked = false;
                proto_done = false;
                sim.probe("owner_reset_with_live_rings");
            }
            Op::ProtoAgain => {
                if !proto_done {
                    skipped = true;
                } else if let Err(e) = vmm
                    .fe
                    .set_protocol_features(vhost::vhost_user::message::VhostUserProtocolFeatures::from_bits_retain(pf::RESET_DEVICE | pf::MQ))
                {
                    viol("control_message_failed", format!("{op:?}"), format!("step {step} {op:?}: {e:?}"));
                }
            }
            Op::Errfd(r) => {
                let fd = EventFd::new(libc::EFD_NONBLOCK).expect("eventfd");
                if let Err(e) = vmm.fe.set_vring_err(r, &fd) {
                    viol("control_message_failed", format!("{op:?}"), format!("step {step} {op:?}: {e:?}"));
                }
                errfds.push(fd);
            }
            Op::KickNofd(r) => {
                let req = spec::FReq::SetVringKick { idx: r as u8, nofd: true };
                if crate::fdu::raw_send_segmented(vmm.raw.as_raw_fd(), &req.wire(false), &[], &[], 0).is_err() {
                    viol("control_message_failed", format!("{op:?}"), format!("step {step} {op:?}: send failed"));
                }
                if let Some(old) = kickfds[r].take() {
                    oldfds[r].push(old);
                }
                // started-ness is left as it was (the statement ties starting to the receipt of
                // a descriptor and stopping to GET_VRING_BASE); without a current descriptor
                // nothing can be dispatched either way
                m[r].has_kick = false;
                m[r].pending = false;
                sim.probe("set_vring_kick_without_descriptor");
            }
            Op::KickOld(r) => {
                let active = m[r].started && m[r].enabled && m[r].has_kick;
                match oldfds[r].last() {
                    Some(fd) if !active => {
                        crate::sched::point("guest.before_kick");
                        fd.write(1).expect("kick write");
                        sim.probe("kick_on_dropped_descriptor_while_inactive");
                    }
                    _ => skipped = true,
                }
            }
            Op::Reset => {
                if !proto_done {
                    skipped = true;
                } else {
                    if let Err(e) = vmm.fe.reset_device() {
                        viol("control_message_failed", format!("{op:?}"), format!("step {step} {op:?}: {e:?}"));
                    }
                    for r in m.iter_mut() {
                        r.enabled = false;
                    }
                    // RESET_DEVICE returns the device to its initial state: features have to be
                    // negotiated again before feature-dependent messages are used
                    fe_pf_acked = false;
                }
            }
            Op::Kick(r) => {
                if m[r].has_kick {
                    crate::sched::point("guest.before_kick");
                    kickfds[r].as_ref().unwrap().write(1).expect("kick write");
                    m[r].pending = true;
                } else {
                    skipped = true;
                }
            }
            Op::SetBase(r, n) => {
                if let Err(e) = vmm.fe.set_vring_base(r, n) {
                    viol("control_message_failed", format!("{op:?}"), format!("step {step} {op:?}: {e:?}"));
                }
                m[r].base = n;
            }
            Op::SetNum(r, n) => {
                if let Err(e) = vmm.fe.set_vring_num(r, n) {
                    viol("control_message_failed", format!("{op:?}"), format!("step {step} {op:?}: {e:?}"));
                }
            }
        }
        if skipped {
            continue;
        }
        // quiescence: whatever this step causes has happened by now
        sim.settle();
        let new: Vec<Dispatch> = {
            let g = log.lock().unwrap();
            g.dispatches[seen..].to_vec()
        };
        seen += new.len();
        let mut per_ring = vec![0usize; nrings];
        for d in &new {
            match ring_of(&masks, d.thread_id, d.device_event) {
                Some(r) if r < nrings => per_ring[r] += 1,
                _ => viol("unknown_event", format!("ev{}", d.device_event), format!("step {step} {op:?}: handle_event for thread {} event {}", d.thread_id, d.device_event)),
            }
        }
        for r in 0..nrings {
            let active = m[r].started && m[r].enabled;
            if active && m[r].pending {
                if per_ring[r] == 0 {
                    viol(
                        "kick_not_dispatched",
                        format!("{op:?}").split('(').next().unwrap_or("").to_string(),
                        format!("step {step} {op:?}: ring {r} is started and enabled with a kick pending on its current kick descriptor, but the event handler was not called (history {hist:?})"),
                    );
                }
                m[r].pending = false;
                sim.probe("kick_dispatched");
            } else if per_ring[r] != 0 {
                viol(
                    "dispatch_while_inactive",
                    format!("{op:?}").split('(').next().unwrap_or("").to_string(),
                    format!("step {step} {op:?}: event handler called {}x for ring {r} although model state is {:?} (history {hist:?})", per_ring[r], m[r]),
                );
            } else if m[r].pending {
                sim.probe("kick_retained_while_inactive");
            }
        }
    }
    // teardown
    drop(vmm);
    let _ = daemon.wait();
    drop(daemon);
    close_leaked_exit_consumers(&log);
    drop(listener);
    drop(kickfds);
    drop(callfds);
    drop(errfds);
    log.lock().unwrap().backend_req.clear();
    RunOut {
        desc,
        nontrivial: hist.len() >= 2,
        sweep_key,
    }
}

#[allow(dead_code)]
fn _t(_: &dyn AsRawFd) {}
