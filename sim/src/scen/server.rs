//! Raw spec peer <-> real `BackendReqHandler` sessions.
//!
//! One engine, several properties: C04 (prescribed replies), C08 (framing under segmentation,
//! truncation, partial writes), C01 direction 2 (spec-conformant requests decode to the encoded
//! values) and the wire half of C05/C09 (hostile streams, see hostile.rs).

use std::fs::File;
use std::os::unix::io::AsRawFd;
use std::sync::{Arc, Mutex};

use vhost::vhost_user::{BackendReqHandler, Error as VuError};

use super::*;
use crate::fdu;
use crate::rec::{Lent, RecDirect, RecMut, Script};
use crate::rng::Tape;
use crate::sched::{self, FaultCfg, Sim, Violation};
use crate::spec::{self, pf, FReq, Gate, Hdr, Inflight, Nego, Region, ReplyRule};

// ------------------------------------------------------------------------------------------
// generators
// ------------------------------------------------------------------------------------------

pub const N_FREQ_TYPES: u64 = 31;

fn fit(x: u64, size: u64) -> u64 {
    x.min(u64::MAX - size)
}

pub fn gen_region(t: &mut Tape) -> Region {
    let size = t.lattice64().max(1);
    Region {
        gpa: fit(t.lattice64(), size),
        size,
        uva: fit(t.lattice64(), size),
        off: fit(t.lattice64(), size),
    }
}

pub fn gen_uuid(t: &mut Tape) -> [u8; 16] {
    let mut u: [u8; 16] = t.bytes(16).try_into().unwrap();
    if u == [0; 16] || u == [0xff; 16] {
        u[0] = 0x42;
    }
    u
}

/// A well-formed, protocol-valid request of type `typ` (0..N_FREQ_TYPES).
pub fn gen_valid_req(t: &mut Tape, typ: u64) -> FReq {
    use FReq::*;
    match typ {
        0 => GetFeatures,
        1 => SetFeatures(t.lattice64()),
        2 => SetOwner,
        3 => ResetOwner,
        4 => {
            let n = match t.draw(8) {
                0 => 1,
                1 => 2,
                2 => 3,
                3 => 8,
                4 => 31,
                5 => 32,
                _ => t.range(1, 32),
            };
            SetMemTable((0..n).map(|_| gen_region(t)).collect())
        }
        5 => {
            let size = t.lattice64().max(1);
            SetLogBase {
                size,
                off: fit(t.lattice64(), size),
            }
        }
        6 => SetVringNum {
            idx: t.lattice32(),
            num: t.lattice32(),
        },
        7 => SetVringAddr {
            idx: t.lattice32(),
            flags: t.draw(2) as u32,
            desc: t.lattice64() & !0xf,
            used: t.lattice64() & !0x3,
            avail: t.lattice64() & !0x1,
            log: t.lattice64(),
        },
        8 => SetVringBase {
            idx: t.lattice32(),
            num: t.lattice32(),
        },
        9 => GetVringBase { idx: t.lattice32() },
        10 => SetVringKick {
            idx: t.draw(256) as u8,
            nofd: t.chance(1, 3),
        },
        11 => SetVringCall {
            idx: t.draw(256) as u8,
            nofd: t.chance(1, 3),
        },
        12 => SetVringErr {
            idx: t.draw(256) as u8,
            nofd: t.chance(1, 3),
        },
        13 => GetProtocolFeatures,
        14 => SetProtocolFeatures(t.lattice64()),
        15 => GetQueueNum,
        16 => SetVringEnable {
            idx: t.lattice32(),
            num: t.draw(2) as u32,
        },
        17 | 18 => {
            let size = match t.draw(6) {
                0 => 1,
                1 => 2,
                2 => 0x1000 - 12,
                3 => 0x1000 - 13,
                _ => t.range(1, 0x1000 - 12),
            } as u32;
            let off = match t.draw(4) {
                0 => 0,
                1 => 0x1000 - size,
                2 => 0x100.min(0x1000 - size),
                _ => t.draw((0x1000 - size + 1) as u64) as u32,
            };
            let flags = t.draw(4) as u32;
            let payload = t.bytes(size as usize);
            if typ == 17 {
                GetConfig { off, size, flags, payload }
            } else {
                SetConfig { off, flags, payload }
            }
        }
        19 => SetBackendReqFd,
        20 | 21 => {
            let i = Inflight {
                mmap_size: t.lattice64(),
                mmap_offset: t.lattice64(),
                num_queues: (t.lattice32() as u16).max(1),
                queue_size: (t.lattice32() as u16).max(1),
            };
            if typ == 20 {
                GetInflightFd(i)
            } else {
                SetInflightFd(i)
            }
        }
        22 => GpuSetSocket,
        23 => ResetDevice,
        24 => GetMaxMemSlots,
        25 => AddMemReg(gen_region(t)),
        26 => RemMemReg(gen_region(t)),
        27 => GetSharedObject(gen_uuid(t)),
        28 => SetDeviceStateFd {
            dir: t.draw(2) as u32,
            phase: 0,
        },
        29 => CheckDeviceState,
        _ => GetShmemConfig,
    }
}

pub fn gen_script(t: &mut Tape, req: &FReq, fail_rate: u64) -> Script {
    let mut s = Script {
        fail: t.chance(fail_rate, 100),
        val: t.lattice64(),
        bytes: Vec::new(),
        with_file: t.chance(1, 2),
        errno: 0,
    };
    if let FReq::GetConfig { size, .. } = req {
        // success with the right length, or an unusable result of another length
        let n = match if fail_rate == 0 { 4 } else { t.draw(5) } {
            0 => 0,
            1 => size.saturating_sub(1) as usize,
            2 => *size as usize + 1,
            _ => *size as usize,
        };
        s.bytes = t.bytes(n.min(0x1000 - 12));
    }
    // negotiation messages never fail in generated sessions: whether a failed SET_*FEATURES
    // still counts as acknowledged is not defined by the property (documented don't-care)
    if matches!(
        req,
        FReq::GetFeatures
            | FReq::SetFeatures(_)
            | FReq::SetProtocolFeatures(_)
            | FReq::GetProtocolFeatures
            // the handler interface for this request has no way to report failure
            | FReq::SetBackendReqFd
    ) {
        s.fail = false;
    }
    s
}

// ------------------------------------------------------------------------------------------
// reference protocol model
// ------------------------------------------------------------------------------------------

#[derive(Clone, Debug, PartialEq)]
pub enum Out {
    Nothing,
    /// reply with the given body predicate and descriptor count
    Reply { body: Body, nfds: usize },
    /// 64-bit acknowledgement, zero iff `ok`
    Ack { ok: bool },
}

#[derive(Clone, Debug, PartialEq)]
pub enum Body {
    Exact(Vec<u8>),
    /// u64 whose low byte is non-zero
    U64LowByteNonZero,
    U64NonZero,
    /// exact prefix, total length given (trailing struct padding is a don't-care)
    Prefix(Vec<u8>, usize),
    Any,
}

#[derive(Clone, Debug)]
pub struct StepExp {
    pub called: bool,
    pub out: Out,
    pub result_ok: bool,
    pub stop: bool,
}

#[derive(Clone, Copy, PartialEq, Debug)]
pub enum Policy {
    /// like the daemon: stop serving at the first error
    Daemon,
    /// an application that keeps calling handle_request after a handler failure
    App,
}

fn u64b(x: u64) -> Vec<u8> {
    x.to_le_bytes().to_vec()
}

pub fn model_step(n: &mut Nego, req: &FReq, need_reply: bool, s: &Script, pol: Policy) -> StepExp {
    if !n.gate_open(req.gate()) {
        return StepExp {
            called: false,
            out: Out::Nothing,
            result_ok: false,
            stop: true,
        };
    }
    // state updates prescribed by the protocol
    match req {
        FReq::GetFeatures if !s.fail => n.offered_virtio = s.val,
        FReq::SetFeatures(x) => n.acked_virtio = *x,
        FReq::SetProtocolFeatures(x) => n.acked_proto = *x,
        _ => {}
    }
    let ok = !s.fail;
    let (out, result_ok) = match req.reply_rule() {
        ReplyRule::Ack => {
            if need_reply && n.reply_ack() {
                (Out::Ack { ok }, ok)
            } else {
                (Out::Nothing, ok)
            }
        }
        ReplyRule::Reply => match req {
            FReq::GetFeatures | FReq::GetQueueNum | FReq::GetMaxMemSlots if ok => (
                Out::Reply {
                    body: Body::Exact(u64b(s.val)),
                    nfds: 0,
                },
                true,
            ),
            FReq::GetProtocolFeatures if ok => (
                Out::Reply {
                    body: Body::Exact(u64b(s.val | pf::REPLY_ACK)),
                    nfds: 0,
                },
                true,
            ),
            FReq::GetVringBase { idx } if ok => {
                let mut b = Vec::new();
                spec::p32(&mut b, *idx);
                spec::p32(&mut b, s.val as u32);
                (Out::Reply { body: Body::Exact(b), nfds: 0 }, true)
            }
            FReq::GetConfig { off, size, flags, .. } => {
                let mut b = Vec::new();
                spec::p32(&mut b, *off);
                if ok && s.bytes.len() == *size as usize {
                    spec::p32(&mut b, *size);
                    spec::p32(&mut b, *flags);
                    b.extend_from_slice(&s.bytes);
                } else {
                    // in-band failure: zero-size config
                    spec::p32(&mut b, 0);
                    spec::p32(&mut b, *flags);
                }
                (Out::Reply { body: Body::Exact(b), nfds: 0 }, true)
            }
            FReq::GetInflightFd(_) if ok => {
                let i = Inflight {
                    mmap_size: s.val,
                    mmap_offset: s.val.rotate_left(17),
                    num_queues: (s.val as u16) | 1,
                    queue_size: ((s.val >> 16) as u16) | 1,
                };
                // the 4 bytes of tail padding of the C struct are not specified: don't-care
                (
                    Out::Reply {
                        body: Body::Prefix(i.bytes()[..20].to_vec(), 24),
                        nfds: 1,
                    },
                    true,
                )
            }
            FReq::GetSharedObject(_) => (
                Out::Reply {
                    body: Body::Exact(vec![]),
                    nfds: ok as usize,
                },
                true,
            ),
            FReq::SetDeviceStateFd { .. } => {
                if !ok {
                    (Out::Reply { body: Body::U64LowByteNonZero, nfds: 0 }, true)
                } else if s.with_file {
                    (Out::Reply { body: Body::Exact(u64b(0)), nfds: 1 }, true)
                } else {
                    (Out::Reply { body: Body::Exact(u64b(0x100)), nfds: 0 }, true)
                }
            }
            FReq::CheckDeviceState => {
                if ok {
                    (Out::Reply { body: Body::Exact(u64b(0)), nfds: 0 }, true)
                } else {
                    (Out::Reply { body: Body::U64NonZero, nfds: 0 }, true)
                }
            }
            FReq::GetShmemConfig if ok => {
                let mut b = Vec::new();
                spec::p32(&mut b, (s.val % 257) as u32);
                spec::p32(&mut b, 0);
                for i in 0..256u64 {
                    spec::p64(&mut b, s.val.wrapping_mul(i + 1));
                }
                (Out::Reply { body: Body::Exact(b), nfds: 0 }, true)
            }
            // reply body of SET_LOG_BASE is not specified beyond "a reply": don't-care
            FReq::SetLogBase { .. } if ok => (Out::Reply { body: Body::Any, nfds: 0 }, true),
            // handler failed and the protocol has no in-band failure encoding: nothing
            _ => (Out::Nothing, false),
        },
    };
    let stop = !result_ok && pol == Policy::Daemon;
    StepExp {
        called: true,
        out,
        result_ok,
        stop,
    }
}

// ------------------------------------------------------------------------------------------
// session description
// ------------------------------------------------------------------------------------------

pub struct Item {
    pub req: FReq,
    pub need_reply: bool,
    pub script: Script,
    pub wire: Vec<u8>,
    pub cuts: Vec<usize>,
    pub exp: StepExp,
}

pub struct Session {
    pub items: Vec<Item>,
    pub policy: Policy,
    pub lockstep: bool,
    pub adapter_mutex: bool,
    /// close the peer's socket after this many bytes of item `.0`
    pub truncate: Option<(usize, usize)>,
}

pub fn gen_cuts(t: &mut Tape, len: usize, mode: u64) -> Vec<usize> {
    if len < 2 {
        return vec![];
    }
    match mode {
        0 => vec![],
        1 => vec![1 + t.draw(len as u64 - 1) as usize],
        2 => vec![12.min(len - 1)],
        3 => {
            let a = 1 + t.draw(len as u64 - 1) as usize;
            let b = 1 + t.draw(len as u64 - 1) as usize;
            vec![a, b]
        }
        4 if len <= 64 => (1..len).collect(),
        _ => {
            let k = 1 + t.draw(5);
            (0..k).map(|_| 1 + t.draw(len as u64 - 1) as usize).collect()
        }
    }
}

/// Negotiation prefix that opens every gate the given requests need.
pub fn nego_prefix(t: &mut Tape, need_proto: u64, need_vpf: bool, reply_ack: bool, extra_noise: bool) -> Vec<(FReq, Script)> {
    let mut v = Vec::new();
    let mut offered = spec::VHOST_USER_F_PROTOCOL_FEATURES;
    if extra_noise {
        offered |= t.lattice64();
    }
    v.push((
        FReq::GetFeatures,
        Script {
            val: offered,
            ..Default::default()
        },
    ));
    if need_vpf {
        v.push((FReq::SetFeatures(offered), Script::default()));
    }
    let mut p = need_proto;
    if reply_ack {
        p |= pf::REPLY_ACK;
    }
    if extra_noise {
        p |= t.lattice64() & !pf::REPLY_ACK & !0x2_0000; // never XEN_MMAP by accident
        if !reply_ack {
            p &= !pf::REPLY_ACK;
        }
    }
    if p != 0 {
        v.push((FReq::SetProtocolFeatures(p), Script::default()));
    }
    v
}

pub fn gate_bits(req: &FReq) -> (u64, bool) {
    match req.gate() {
        Gate::None => (0, false),
        Gate::Proto(b) => (b, false),
        Gate::VirtioProtocolFeatures => (0, true),
    }
}

// ------------------------------------------------------------------------------------------
// execution
// ------------------------------------------------------------------------------------------

pub struct Got {
    pub hdr: Hdr,
    pub body: Vec<u8>,
    pub files: Vec<File>,
    /// descriptors that arrived with a byte other than the message's first
    pub late_fds: usize,
}

pub struct SessionResult {
    pub got: Vec<Got>,
    pub peer_err: Option<String>,
    pub trailing: usize,
    pub results: Vec<Result<(), String>>,
    pub calls: Vec<(FReq, Vec<File>)>,
    pub lent: Vec<Lent>,
    pub leftover_on_server: usize,
}

fn read_msg(sock: i32) -> Result<Option<Got>, String> {
    let (h, hf) = fdu::raw_recv_exact(sock, spec::HDR, "peer.recv").map_err(|e| format!("errno {e}"))?;
    if h.is_empty() {
        return Ok(None);
    }
    if h.len() < spec::HDR {
        return Err(format!("stream ended inside a header ({} bytes)", h.len()));
    }
    let hdr = spec::parse_hdr(&h);
    if hdr.size as usize > 1 << 20 {
        return Err(format!("absurd size {}", hdr.size));
    }
    let (b, bf) = fdu::raw_recv_exact(sock, hdr.size as usize, "peer.recv").map_err(|e| format!("errno {e}"))?;
    if b.len() < hdr.size as usize {
        return Err(format!("stream ended inside a body ({} of {})", b.len(), hdr.size));
    }
    let mut late = bf.len();
    let mut files = Vec::new();
    for (off, f) in hf {
        if off == 0 {
            files.push(f);
        } else {
            late += 1;
        }
    }
    Ok(Some(Got {
        hdr,
        body: b,
        files,
        late_fds: late,
    }))
}

pub enum AnyHandler {
    Direct(Arc<RecDirect>),
    Mutexed(Arc<Mutex<RecMut>>),
}

impl AnyHandler {
    pub fn with<R>(&self, f: impl FnOnce(&mut RecMut) -> R) -> R {
        match self {
            AnyHandler::Direct(d) => f(&mut d.inner.lock().unwrap()),
            AnyHandler::Mutexed(m) => f(&mut m.lock().unwrap()),
        }
    }
}

pub fn serve_loop_pub<S: vhost::vhost_user::VhostUserBackendReqHandler>(
    mut h: BackendReqHandler<S>,
    pol: Policy,
    results: Arc<Mutex<Vec<Result<(), String>>>>,
) {
    loop {
        sched::point("server.before_request");
        let r = h.handle_request();
        let stop = match &r {
            Ok(()) => false,
            Err(VuError::ReqHandlerError(_)) => pol == Policy::Daemon,
            Err(_) => true,
        };
        results.lock().unwrap().push(r.map_err(|e| format!("{e:?}")));
        if stop {
            break;
        }
    }
    // what the daemon thread does when it stops serving
    if let Ok(c) = h.try_clone_connection() {
        sched::point("server.final_shutdown");
        let _ = c.shutdown(std::net::Shutdown::Both);
    }
    drop(h);
}

pub fn run_session(sim: &Sim, sess: &Session) -> SessionResult {
    let (peer, srv) = fdu::sockpair();
    sim.label_fd(srv.as_raw_fd(), "srv");
    sim.label_fd(peer.as_raw_fd(), "peer");
    let results = Arc::new(Mutex::new(Vec::new()));
    let scripts: Vec<Script> = sess.items.iter().map(|i| i.script.clone()).collect();
    let handler = if sess.adapter_mutex {
        let m = Arc::new(Mutex::new(RecMut::default()));
        m.lock().unwrap().st.scripts = scripts;
        AnyHandler::Mutexed(m)
    } else {
        let d = Arc::new(RecDirect::default());
        d.inner.lock().unwrap().st.scripts = scripts;
        AnyHandler::Direct(d)
    };
    let pol = sess.policy;
    let r2 = results.clone();
    let srv_task = match &handler {
        AnyHandler::Direct(d) => {
            let h = BackendReqHandler::from_stream(srv, d.clone());
            sim.spawn("server", "server", move || serve_loop_pub(h, pol, r2))
        }
        AnyHandler::Mutexed(m) => {
            let h = BackendReqHandler::from_stream(srv, m.clone());
            sim.spawn("server", "server", move || serve_loop_pub(h, pol, r2))
        }
    };
    // descriptors the peer lends to each request
    let lent: Vec<Lent> = sess.items.iter().map(|i| Lent::for_req(&i.req)).collect();
    let plan: Vec<(Vec<u8>, Vec<usize>, Vec<i32>, bool)> = sess
        .items
        .iter()
        .zip(lent.iter())
        .map(|(i, l)| {
            (
                i.wire.clone(),
                i.cuts.clone(),
                l.wire_fds(&i.req),
                sess.lockstep && i.exp.out != Out::Nothing,
            )
        })
        .collect();
    let truncate = sess.truncate;
    let peer_out = Arc::new(Mutex::new((Vec::<Got>::new(), None::<String>, 0usize)));
    let po = peer_out.clone();
    let peer_task = sim.spawn("peer", "peer", move || {
        let sock = peer;
        let fd = sock.as_raw_fd();
        let mut closed_early = false;
        'outer: for (k, (wire, cuts, fds, wait_reply)) in plan.iter().enumerate() {
            if let Some((tk, off)) = truncate {
                if tk == k {
                    let pre = &wire[..off.min(wire.len())];
                    if !pre.is_empty() {
                        let c: Vec<usize> = cuts.iter().copied().filter(|c| *c < pre.len()).collect();
                        let _ = fdu::raw_send_segmented(fd, pre, &c, fds, 0);
                    }
                    closed_early = true;
                    break 'outer;
                }
            }
            if let Err(e) = fdu::raw_send_segmented(fd, wire, cuts, fds, 0) {
                // the server stopped reading (it rejected an earlier message): legitimate
                po.lock().unwrap().1 = Some(format!("send errno {e} at item {k}"));
                break;
            }
            if *wait_reply {
                match read_msg(fd) {
                    Ok(Some(g)) => po.lock().unwrap().0.push(g),
                    Ok(None) => {
                        po.lock().unwrap().1 = Some(format!("EOF while waiting for the answer to item {k}"));
                        break;
                    }
                    Err(e) => {
                        po.lock().unwrap().1 = Some(e);
                        break;
                    }
                }
            }
        }
        if closed_early {
            sched::point("peer.close");
            drop(sock);
            return;
        }
        fdu::shutdown_wr(&sock);
        loop {
            match read_msg(fd) {
                Ok(Some(g)) => po.lock().unwrap().0.push(g),
                Ok(None) => break,
                Err(e) => {
                    let mut g = po.lock().unwrap();
                    // a reset connection (the server stopped with unread input) ends the stream;
                    // only structurally broken output counts as garbage
                    if !e.starts_with("errno") {
                        g.2 += 1;
                    }
                    if g.1.is_none() {
                        g.1 = Some(e);
                    }
                    break;
                }
            }
        }
    });
    sim.join(peer_task);
    sim.join(srv_task);
    let (got, peer_err, trailing) = {
        let mut g = peer_out.lock().unwrap();
        (std::mem::take(&mut g.0), g.1.take(), g.2)
    };
    let calls = handler.with(|r| {
        r.st.backends.clear();
        r.st.gpu.clear();
        r.st.calls.drain(..).map(|c| (c.req, c.files)).collect::<Vec<_>>()
    });
    let results = std::mem::take(&mut *results.lock().unwrap());
    SessionResult {
        got,
        peer_err,
        trailing,
        results,
        calls,
        lent,
        leftover_on_server: 0,
    }
}

// ------------------------------------------------------------------------------------------
// oracles
// ------------------------------------------------------------------------------------------

fn norm(req: &FReq) -> FReq {
    match req {
        // the handler interface does not carry the request payload of GET_CONFIG
        FReq::GetConfig { off, size, flags, .. } => FReq::GetConfig {
            off: *off,
            size: *size,
            flags: *flags,
            payload: vec![],
        },
        r => r.clone(),
    }
}

fn check_out(prop: &str, k: usize, item: &Item, g: &Got) -> Result<(), Violation> {
    let name = item.req.name();
    let code = item.req.code();
    let bad = |clause: &str, msg: String| Err(Violation::new(prop, clause, name, format!("item {k} {name}: {msg}")));
    if g.late_fds > 0 {
        return bad("fds_not_on_first_byte", format!("{} descriptors arrived after the first byte", g.late_fds));
    }
    if g.hdr.code != code {
        return bad("reply_code", format!("answer carries request code {} instead of {}", g.hdr.code, code));
    }
    if g.hdr.flags != (spec::VERSION | spec::F_REPLY) {
        return bad("reply_flags", format!("answer flags {:#x}, expected version 1 | REPLY only", g.hdr.flags));
    }
    if g.hdr.size as usize != g.body.len() {
        return bad("reply_size", "size field differs from payload".into());
    }
    match &item.exp.out {
        Out::Nothing => bad("unexpected_output", "no answer is prescribed".into()),
        Out::Ack { ok } => {
            if g.body.len() != 8 {
                return bad("ack_size", format!("acknowledgement of {} bytes", g.body.len()));
            }
            let v = spec::g64(&g.body, 0);
            if (v == 0) != *ok {
                return bad("ack_value", format!("acknowledgement value {v} for handler success={ok}"));
            }
            if !g.files.is_empty() {
                return bad("ack_fds", "acknowledgement carries descriptors".into());
            }
            Ok(())
        }
        Out::Reply { body, nfds } => {
            match body {
                Body::Exact(b) => {
                    if &g.body != b {
                        return bad(
                            "reply_body",
                            format!("reply body {:02x?} expected {:02x?}", &g.body[..g.body.len().min(48)], &b[..b.len().min(48)]),
                        );
                    }
                }
                Body::U64LowByteNonZero => {
                    if g.body.len() != 8 || g.body[0] == 0 {
                        return bad("reply_body", format!("failure status expected, got {:02x?}", g.body));
                    }
                }
                Body::U64NonZero => {
                    if g.body.len() != 8 || spec::g64(&g.body, 0) == 0 {
                        return bad("reply_body", format!("non-zero status expected, got {:02x?}", g.body));
                    }
                }
                Body::Prefix(p, total) => {
                    if g.body.len() != *total || &g.body[..p.len()] != &p[..] {
                        return bad("reply_body", format!("reply body {:02x?} expected prefix {:02x?} of {} bytes", g.body, p, total));
                    }
                }
                Body::Any => {}
            }
            if g.files.len() != *nfds {
                return bad("reply_fds", format!("{} descriptors with the reply, expected {}", g.files.len(), nfds));
            }
            Ok(())
        }
    }
}

/// Compare everything observed in a session of well-formed requests with the reference model.
pub fn judge(prop: &str, sess: &Session, res: &SessionResult) -> Result<(), Violation> {
    // how far does the model say the server gets?
    let mut upto = sess.items.len();
    let mut trunc_partial = None;
    if let Some((k, off)) = sess.truncate {
        upto = upto.min(k);
        if off > 0 {
            trunc_partial = Some(k);
        }
    }
    let mut exp_calls: Vec<(usize, &Item)> = Vec::new();
    let mut exp_outs: Vec<(usize, &Item)> = Vec::new();
    let mut exp_results: Vec<bool> = Vec::new();
    let mut stopped = false;
    for (k, it) in sess.items.iter().enumerate().take(upto) {
        if it.exp.called {
            exp_calls.push((k, it));
        }
        if it.exp.out != Out::Nothing {
            exp_outs.push((k, it));
        }
        exp_results.push(it.exp.result_ok);
        if it.exp.stop {
            stopped = true;
            break;
        }
    }
    // 1. handler log
    let v = |clause: &str, keys: &str, msg: String| Err(Violation::new(prop, clause, keys, msg));
    for (i, (k, it)) in exp_calls.iter().enumerate() {
        match res.calls.get(i) {
            None => {
                return v(
                    "handler_not_invoked",
                    it.req.name(),
                    format!(
                        "item {k} {:?} (cuts {:?}) never reached the handler; handler saw {} calls; server results {:?}",
                        it.req,
                        it.cuts,
                        res.calls.len(),
                        res.results
                    ),
                )
            }
            Some((got, files)) => {
                if *got != norm(&it.req) {
                    return v(
                        "handler_args",
                        it.req.name(),
                        format!("item {k}: handler saw {got:?}, peer encoded {:?}", it.req),
                    );
                }
                let mut sent = res.lent[*k].wire_fds(&it.req);
                if matches!(it.req, FReq::SetBackendReqFd | FReq::GpuSetSocket) {
                    // the descriptor is handed over wrapped in a proxy object, not as a File
                    sent.clear();
                }
                if files.len() != sent.len() {
                    return v(
                        "handler_files",
                        it.req.name(),
                        format!("item {k}: handler got {} files, peer sent {}", files.len(), sent.len()),
                    );
                }
                for (f, s) in files.iter().zip(sent.iter()) {
                    if !fdu::same_open_file(f.as_raw_fd(), *s) {
                        return v("handler_file_identity", it.req.name(), format!("item {k}: received file is not the one sent"));
                    }
                }
            }
        }
    }
    if res.calls.len() > exp_calls.len() {
        let (extra, _) = &res.calls[exp_calls.len()];
        let clause = if trunc_partial.is_some() && res.calls.len() == exp_calls.len() + 1 {
            "dispatch_of_truncated_request"
        } else {
            "extra_handler_call"
        };
        return v(clause, extra.name(), format!("handler invoked {} times, model expects {}; extra: {extra:?}", res.calls.len(), exp_calls.len()));
    }
    // 2. server output
    for (i, (k, it)) in exp_outs.iter().enumerate() {
        match res.got.get(i) {
            None => {
                return v(
                    "missing_output",
                    it.req.name(),
                    format!("item {k} {}: prescribed {:?} never arrived (peer: {:?}; server results {:?})", it.req.name(), it.exp.out, res.peer_err, res.results),
                )
            }
            Some(g) => check_out(prop, *k, it, g)?,
        }
    }
    if res.got.len() > exp_outs.len() {
        let g = &res.got[exp_outs.len()];
        return v(
            "unexpected_output",
            &format!("code{}", g.hdr.code),
            format!("server wrote {} messages, model prescribes {}; extra header {:?}", res.got.len(), exp_outs.len(), g.hdr),
        );
    }
    if res.trailing > 0 {
        return v("garbage_output", "", format!("undecodable bytes after the last reply: {:?}", res.peer_err));
    }
    // 3. handle_request results
    for (i, ok) in exp_results.iter().enumerate() {
        match res.results.get(i) {
            Some(r) if r.is_ok() == *ok => {}
            other => {
                return v(
                    "handle_request_result",
                    sess.items[i].req.name(),
                    format!("item {i} {}: handle_request returned {other:?}, model expects ok={ok}", sess.items[i].req.name()),
                )
            }
        }
    }
    // 4. what happens after the last modelled item
    let tail = &res.results[exp_results.len().min(res.results.len())..];
    if !stopped {
        match (sess.truncate, tail) {
            (None, [Err(e)]) | (Some((_, 0)), [Err(e)]) => {
                if !e.starts_with("Disconnected") {
                    return v("eof_at_boundary", "", format!("stream ended at a message boundary but the server reported {e}"));
                }
            }
            (Some((k, _)), [Err(e)]) => {
                if e.starts_with("Disconnected") {
                    return v(
                        "truncation_reported_as_clean",
                        sess.items[k].req.name(),
                        format!("stream cut inside item {k} but the server reported a clean disconnect"),
                    );
                }
            }
            (_, t) => {
                return v("server_tail", "", format!("after the session the server results were {t:?} (expected exactly one error)"));
            }
        }
    } else if !tail.is_empty() {
        return v("served_after_stop", "", format!("server kept serving after a fatal error: {tail:?}"));
    }
    Ok(())
}

// ------------------------------------------------------------------------------------------
// generated sessions of well-formed requests
// ------------------------------------------------------------------------------------------

pub struct GenOpts {
    pub max_items: u64,
    pub fail_rate: u64,
    pub seg_mode: Option<u64>,
    pub forced_type: Option<u64>,
    pub truncate: bool,
}

/// Run the reference model over a request list and produce session items.
pub fn build_items(t: &mut Tape, all: Vec<(FReq, Script)>, policy: Policy, seg_mode: u64) -> Vec<Item> {
    let mut nego = Nego::default();
    let mut items = Vec::new();
    for (req, script) in all {
        let mut need_reply = t.chance(1, 2);
        if let FReq::SetProtocolFeatures(x) = &req {
            // whether the message that itself acknowledges REPLY_ACK is acked is a don't-care
            if (x & pf::REPLY_ACK != 0) != (nego.acked_proto & pf::REPLY_ACK != 0) {
                need_reply = false;
            }
        }
        let exp = model_step(&mut nego, &req, need_reply, &script, policy);
        let wire = req.wire(need_reply);
        let mode = if seg_mode == 9 { t.draw(6) } else { seg_mode };
        let cuts = gen_cuts(t, wire.len(), mode);
        items.push(Item {
            req,
            need_reply,
            script,
            wire,
            cuts,
            exp,
        });
    }
    items
}

pub fn gen_session(t: &mut Tape, o: &GenOpts) -> Session {
    let policy = if t.chance(1, 2) { Policy::App } else { Policy::Daemon };
    let lockstep = t.chance(1, 2);
    let adapter_mutex = t.chance(1, 2);
    let reply_ack = t.chance(2, 3);
    let n = t.range(1, o.max_items);
    let mut reqs: Vec<FReq> = Vec::new();
    for i in 0..n {
        let typ = match (o.forced_type, i) {
            (Some(ft), 0) => ft,
            _ => t.draw(N_FREQ_TYPES),
        };
        reqs.push(gen_valid_req(t, typ));
    }
    // gates: open what the session needs, except that sometimes one gate stays closed
    let mut need = 0u64;
    let mut need_vpf = false;
    for r in &reqs {
        let (b, v) = gate_bits(r);
        need |= b;
        need_vpf |= v;
    }
    let leave_closed = o.forced_type.is_none() && t.chance(1, 8);
    if leave_closed {
        let gs: Vec<u64> = pf::GATING.iter().copied().filter(|g| need & g != 0).collect();
        if !gs.is_empty() {
            need &= !*t.pick(&gs);
        }
    }
    let noise = t.chance(1, 2);
    let mut all: Vec<(FReq, Script)> = nego_prefix(t, need, need_vpf, reply_ack, noise);
    for r in reqs {
        let s = gen_script(t, &r, o.fail_rate);
        all.push((r, s));
    }
    let items = build_items(t, all, policy, o.seg_mode.unwrap_or(0));
    let mut truncate = None;
    let mut lockstep = lockstep;
    if o.truncate {
        // a peer that closes with unread replies resets the connection: read them first
        lockstep = true;
        let k = t.draw(items.len() as u64) as usize;
        let off = t.draw(items[k].wire.len() as u64 + 1) as usize;
        let off = if off == items[k].wire.len() { 0 } else { off };
        truncate = Some((k, off));
    }
    Session {
        items,
        policy,
        lockstep,
        adapter_mutex,
        truncate,
    }
}

pub fn describe(s: &Session) -> String {
    let names: Vec<String> = s
        .items
        .iter()
        .map(|i| {
            format!(
                "{}{}{}",
                i.req.name(),
                if i.need_reply { "+NR" } else { "" },
                if i.script.fail { "!fail" } else { "" }
            )
        })
        .collect();
    format!(
        "policy={:?} lockstep={} mutex_adapter={} truncate={:?} items=[{}] cuts={:?}",
        s.policy,
        s.lockstep,
        s.adapter_mutex,
        s.truncate,
        names.join(","),
        s.items.iter().map(|i| i.cuts.len()).collect::<Vec<_>>()
    )
}

// ------------------------------------------------------------------------------------------
// C04
// ------------------------------------------------------------------------------------------

pub fn def_c04() -> PropDef {
    PropDef {
        id: "C04",
        run: run_c04,
        quick_runs: 40_000,
        thorough_runs: 1_500_000,
        level: "exploration",
        rule: "seeded sessions of 1..12 well-formed requests over the full alphabet (first request type swept by index) after a negotiation prefix, NEED_REPLY per request, scripted handler success/failure, daemon or keep-serving policy, lock-step or pipelined peer, direct or Mutex-adapter handler; distinct = distinct (workload tape, interleaving, fault trace); non-trivial = session has >= 2 requests or a fault fired or a scheduling choice existed",
        assumptions: ASSUME,
        real: REAL_W,
        stubs: STUB_W,
        sweep_size: |_| N_FREQ_TYPES,
        sweep_desc: "every front-end request type handled by the server appears as first generated request of some session",
        panic_prop: "C05",
    }
}

fn run_c04(sim: &Sim, cfg: &RunCfg) -> RunOut {
    sim.choose_policy();
    let seg = cfg.index % 3 == 2;
    let sess = sim.with_w(|t| {
        gen_session(
            t,
            &GenOpts {
                max_items: if cfg.tier == Tier::Thorough { 24 } else { 12 },
                fail_rate: 25,
                seg_mode: if seg { Some(2) } else { None },
                forced_type: Some(cfg.index % N_FREQ_TYPES),
                truncate: false,
            },
        )
    });
    let d = describe(&sess);
    crate::runner::set_desc(&d);
    let res = run_session(sim, &sess);
    if let Err(v) = judge("C04", &sess, &res) {
        sim.violation(v);
    }
    RunOut {
        desc: d,
        nontrivial: sess.items.len() >= 2,
        sweep_key: Some(cfg.index % N_FREQ_TYPES),
    }
}

// ------------------------------------------------------------------------------------------
// C08 (receiver = backend server; sender = backend server's replies)
// ------------------------------------------------------------------------------------------

pub fn canon_req(typ: u64) -> FReq {
    let mut t = Tape::replaying(vec![]);
    gen_valid_req(&mut t, typ)
}

/// The finite sweep space of the server receiver: (sub, type, position) with sub 0 = 2-split at
/// `pos+1`, sub 1 = cut after `pos` bytes then close.
pub fn c08_server_space() -> Vec<(u64, u64, usize)> {
    let mut v = Vec::new();
    for typ in 0..N_FREQ_TYPES {
        let len = canon_req(typ).wire(false).len();
        for p in 1..len {
            v.push((0, typ, p));
        }
        for p in 0..len {
            v.push((1, typ, p));
        }
    }
    v
}

fn canon_session(t: &mut Tape, typ: u64) -> (Session, usize) {
    let req = canon_req(typ);
    let (b, v) = gate_bits(&req);
    let reply_ack = t.chance(1, 2);
    let mut all = nego_prefix(t, b, v, reply_ack, false);
    let script = Script {
        val: 0x1122_3344_5566_7788,
        bytes: match &req {
            FReq::GetConfig { size, .. } => vec![0xab; *size as usize],
            _ => vec![],
        },
        with_file: true,
        ..Default::default()
    };
    all.push((req, script));
    let policy = if t.chance(1, 2) { Policy::App } else { Policy::Daemon };
    let mut nego = Nego::default();
    let mut items = Vec::new();
    let n = all.len();
    for (i, (req, script)) in all.into_iter().enumerate() {
        let need_reply = i + 1 == n && t.chance(1, 2);
        let exp = model_step(&mut nego, &req, need_reply, &script, policy);
        let wire = req.wire(need_reply);
        items.push(Item {
            req,
            need_reply,
            script,
            wire,
            cuts: vec![],
            exp,
        });
    }
    (
        Session {
            items,
            policy,
            lockstep: true,
            adapter_mutex: t.chance(1, 2),
            truncate: None,
        },
        n - 1,
    )
}

/// sub: 0/1 = sweep entry `entry` of `c08_server_space`; 2 = random segmentation + short reads;
/// 3 = sender-side partial writes and retry-class errnos.
pub fn c08_server_run(sim: &Sim, cfg: &RunCfg, sub: u64, entry: u64) -> (String, Option<u64>) {
    let mut key = None;
    let sess = if sub < 2 {
        let space = c08_server_space();
        let sel: Vec<&(u64, u64, usize)> = space.iter().filter(|e| e.0 == sub).collect();
        let (_, typ, pos) = *sel[(entry as usize) % sel.len()];
        let (mut sess, k) = sim.with_w(|t| canon_session(t, typ));
        if sub == 0 {
            sess.items[k].cuts = vec![pos];
        } else {
            sess.truncate = Some((k, pos));
        }
        key = Some(sub * 1_000_000 + typ * 10_000 + pos as u64);
        sess
    } else {
        let sess = sim.with_w(|t| {
            gen_session(
                t,
                &GenOpts {
                    max_items: 6,
                    fail_rate: 10,
                    seg_mode: Some(if sub == 2 { 9 } else { 0 }),
                    forced_type: Some(cfg.index % N_FREQ_TYPES),
                    truncate: sub == 2 && cfg.index % 3 == 0,
                },
            )
        });
        let mut st = sim.st();
        st.faults = if sub == 2 {
            FaultCfg {
                short_recv: 300,
                only: vec!["srv"],
                ..Default::default()
            }
        } else {
            FaultCfg {
                short_send: 400,
                errno_retry_send: 100,
                errno_budget: 6,
                only: vec!["srv"],
                ..Default::default()
            }
        };
        drop(st);
        sess
    };
    let d = format!("server sub={sub} {}", describe(&sess));
    crate::runner::set_desc(&d);
    let res = run_session(sim, &sess);
    if let Err(v) = judge("C08", &sess, &res) {
        sim.violation(v);
    }
    (d, key)
}
