//! C12: no lost or post-stop kick dispatch under any interleaving of guest kicks, worker
//! wake-ups and control-message processing.

use std::sync::{Arc, Mutex};

use vhost::vhost_user::message::VhostUserProtocolFeatures;
use vhost::vhost_user::{Listener, VhostUserFrontend};
use vhost::VhostBackend;
use vhost_user_backend::{VringMutex, VringRwLock, VringT};
use vm_memory::{GuestMemoryAtomic, GuestMemoryMmap};
use vmm_sys_util::eventfd::EventFd;

use super::c11::ring_of;
use super::daemon::*;
use super::*;
use crate::sched::{self, Sim, Violation};
use crate::spec::{self, pf};

#[derive(Clone, Copy, Debug)]
enum Ctl {
    Disable(usize),
    Enable(usize),
    StopRestart(usize),
    ResetReenable,
}

#[derive(Default)]
struct RingO {
    /// event seq at which the VMM saw the reply to the latest disabling/stopping message, with
    /// no enabling/starting message sent since
    quiet_since: Option<u64>,
    quiet_by: &'static str,
    gen: u64,
    last_kick_seq: u64,
    last_kick_gen: u64,
    last_dispatch_seq: u64,
    kicks: u64,
    dispatches: u64,
}

struct Orc {
    rings: Vec<RingO>,
    kickfds: Vec<Option<Arc<EventFd>>>,
}

pub fn def() -> PropDef {
    PropDef {
        id: "C12",
        run,
        quick_runs: 40000,
        thorough_runs: 1_500_000,
        level: "exploration",
        rule: "a live daemon (1-2 rings, one or two workers, VringMutex/VringRwLock, Mutex/RwLock adapter, REPLY_ACK + NEED_REPLY so that every control message is answered) with three concurrent parties: a VMM task sending 1..6 of {ENABLE 0, ENABLE 1, GET_VRING_BASE + restart with a fresh kick fd, RESET_DEVICE + renegotiate + ENABLE 1} without waiting for quiescence, a guest task raising 1..6 kicks on the ring's current kick descriptor at arbitrary steps, and the real worker/daemon threads; schedules: random, PCT (d<=3), sticky, with forced switches after 'state changed', 'epoll returned', 'before read_kick', 'before dispatch'; safety oracle evaluated inside handle_event (dispatch after the VMM saw the reply to a disabling/stopping message and before it sent an enabling one), liveness oracle at final quiescence after all rings were re-activated (last kick on the current descriptor must be followed by a dispatch); distinct = distinct (workload tape, interleaving, fault trace); non-trivial = a scheduling choice existed",
        assumptions: ASSUME,
        real: REAL_D,
        stubs: STUB_D,
        sweep_size: no_sweep,
        sweep_desc: "",
        panic_prop: "C12",
    }
}

fn run(sim: &Sim, cfg: &RunCfg) -> RunOut {
    sim.choose_policy();
    swarm_short_io(sim);
    let rw = sim.with_w(|t| t.chance(1, 2));
    if rw {
        run_v::<VringRwLock<GM<()>>>(sim, cfg)
    } else {
        run_v::<VringMutex<GM<()>>>(sim, cfg)
    }
}

fn run_v<V: VringT<GM<()>> + Clone + Send + Sync + 'static>(sim: &Sim, cfg: &RunCfg) -> RunOut {
    let deep = cfg.tier == Tier::Thorough;
    sim.st().hot = vec![
        "ctl.enable.state_changed",
        "ctl.stop.state_changed",
        "ctl.reset.state_changed",
        "ctl.enable.epoll_updated",
        "ctl.stop.epoll_updated",
        "worker.epoll_returned",
        "worker.before_read_kick",
        "worker.before_dispatch",
        "guest.before_kick",
        "sent",
    ];
    let (adapter, masks, nrings, ctls, nkicks, kick_rings, nonblock) = sim.with_w(|t| {
        let adapter = if t.chance(1, 2) { Adapter::Mutex } else { Adapter::RwLock };
        let nrings = t.range(1, 3) as usize;
        // contiguous, descending and interleaved assignments of rings to workers
        let masks: Vec<u64> = match nrings {
            1 => vec![0b1],
            2 => t.pick(&[vec![0b11u64], vec![0b01, 0b10], vec![0b10, 0b01]]).clone(),
            _ => t
                .pick(&[vec![0b111u64], vec![0b101, 0b010], vec![0b010, 0b101], vec![0b100, 0b010, 0b001], vec![0b110, 0b001]])
                .clone(),
        };
        let n = t.range(1, if deep { 12 } else { 6 });
        let mut ctls = Vec::new();
        for _ in 0..n {
            let r = t.draw(nrings as u64) as usize;
            ctls.push(match t.draw(7) {
                0 | 1 => Ctl::Disable(r),
                2 | 3 => Ctl::Enable(r),
                4 | 5 => Ctl::StopRestart(r),
                _ => Ctl::ResetReenable,
            });
        }
        let nk = t.range(1, if deep { 12 } else { 6 });
        let kr: Vec<usize> = (0..nk).map(|_| t.draw(nrings as u64) as usize).collect();
        (adapter, masks, nrings, ctls, nk, kr, t.chance(1, 2))
    });
    let desc = format!(
        "adapter={adapter:?} vring={} masks={masks:?} rings={nrings} nonblocking_kick_fds={nonblock} control={ctls:?} kicks_on={kick_rings:?}",
        std::any::type_name::<V>().rsplit("::").next().unwrap_or("")
    );
    crate::runner::set_desc(&desc);
    let orc = Arc::new(Mutex::new(Orc {
        rings: (0..nrings).map(|_| RingO::default()).collect(),
        kickfds: (0..nrings).map(|_| None).collect(),
    }));
    let mut stub = StubMut::<V, ()>::new(
        StubCfg {
            num_queues: nrings,
            queues_per_thread: masks.clone(),
            // every dispatch "processes one request": the index GET_VRING_BASE reports must be final
            advance_avail_on_event: true,
            // ... and raises one interrupt on the ring's call descriptor when it is done
            signal_on_event: true,
            ..Default::default()
        },
        sim,
    );
    let log = stub.log.clone();
    {
        let orc = orc.clone();
        let masks = masks.clone();
        stub.on_dispatch = Some(Arc::new(move |d: &Dispatch| {
            if let Some(r) = ring_of(&masks, d.thread_id, d.device_event) {
                let mut g = orc.lock().unwrap();
                if let Some(ro) = g.rings.get_mut(r) {
                    ro.last_dispatch_seq = d.seq;
                    ro.dispatches += 1;
                    if let Some(q) = ro.quiet_since {
                        let by = ro.quiet_by;
                        drop(g);
                        // when was this worker woken (epoll_wait returned) for the event it is
                        // dispatching now?
                        let woke = sched::my_last_seq("worker.epoll_returned");
                        let when = if woke < q { "woken_before_reply" } else { "woken_after_reply" };
                        // did the worker take its decision (read_kick) before the control path
                        // changed the ring's state, or did it see the new state and go on anyway?
                        let rk = sched::my_last_seq("worker.before_read_kick");
                        let lab = match by {
                            "GET_VRING_BASE" => "ctl.stop.state_changed",
                            "RESET_DEVICE" => "ctl.reset.state_changed",
                            _ => "ctl.enable.state_changed",
                        };
                        let sc = sched::last_seq_of_role("daemon", lab);
                        let order = if rk < sc { "decided_before_state_change" } else { "decided_after_state_change" };
                        sched::soft_violation(Violation::new(
                            "C12",
                            "dispatch_after_disable_reply",
                            format!("{by}:{when}:{order}"),
                            format!("event handler entered for ring {r} at event {} although the VMM received the reply to {by} at event {q} and has not enabled or started the ring since (the worker's epoll_wait had returned at event {woke})", d.seq),
                        ));
                    }
                }
            }
        }));
    }
    let mem = GuestMemoryAtomic::new(GuestMemoryMmap::<()>::new());
    let mut daemon = AnyDaemon::new(adapter, stub, mem);
    let path = sock_path();
    let mut listener = Listener::new(&path, true).expect("listener");
    let mut vmm = connect_and_start(sim, &mut daemon, &mut listener, &path, nrings as u64).expect("start");
    let protos = pf::REPLY_ACK | pf::RESET_DEVICE | pf::MQ;
    let offered = vmm.fe.get_features().expect("get_features");
    vmm.negotiate(offered, Some(protos), true).expect("negotiate");
    let mkfd = move || Arc::new(EventFd::new(if nonblock { libc::EFD_NONBLOCK } else { 0 }).expect("eventfd"));
    // initial state: every ring started and enabled
    // one call descriptor per ring; (descriptor, dispatches of that ring when it was installed)
    let calls: Arc<Mutex<Vec<(Arc<EventFd>, u64)>>> = Arc::new(Mutex::new(Vec::new()));
    for r in 0..nrings {
        let c = Arc::new(EventFd::new(libc::EFD_NONBLOCK).expect("eventfd"));
        vmm.fe.set_vring_call(r, &c).expect("set_vring_call");
        calls.lock().unwrap().push((c, 0));
    }
    for r in 0..nrings {
        let fd = mkfd();
        vmm.fe.set_vring_kick(r, &fd).expect("set_vring_kick");
        vmm.fe.set_vring_enable(r, true).expect("set_vring_enable");
        let mut g = orc.lock().unwrap();
        g.kickfds[r] = Some(fd);
        g.rings[r].gen = 1;
    }
    sim.settle();

    let sim_v = sim.clone();
    let orc_v = orc.clone();
    let calls_v = calls.clone();
    let ctls2 = ctls.clone();
    // the frontend is handed to the VMM task and back, so that the connection outlives the task
    let slot = Arc::new(Mutex::new(Some(vmm)));
    let slot2 = slot.clone();
    let vmm_task = sim.spawn("vmm", "vmm", move || {
        let mut vmm = slot2.lock().unwrap().take().expect("vmm");
        let fail = |what: &str, e: vhost::Error| -> ! {
            sched::violation(Violation::new("C12", "control_message_failed", what, format!("{what}: {e:?}")))
        };
        let quiet = |r: usize, by: &'static str| {
            let s = sim_v.seq();
            let mut g = orc_v.lock().unwrap();
            g.rings[r].quiet_since = Some(s);
            g.rings[r].quiet_by = by;
        };
        let loud = |r: usize| {
            orc_v.lock().unwrap().rings[r].quiet_since = None;
        };
        let mut enabled = vec![true; nrings];
        for c in ctls2 {
            match c {
                Ctl::Disable(r) => {
                    if let Err(e) = vmm.fe.set_vring_enable(r, false) {
                        fail("SET_VRING_ENABLE 0", e);
                    }
                    quiet(r, "SET_VRING_ENABLE 0");
                    enabled[r] = false;
                }
                Ctl::Enable(r) => {
                    loud(r);
                    if let Err(e) = vmm.fe.set_vring_enable(r, true) {
                        fail("SET_VRING_ENABLE 1", e);
                    }
                    enabled[r] = true;
                }
                Ctl::StopRestart(r) => {
                    match vmm.fe.get_vring_base(r) {
                        Err(e) => fail("GET_VRING_BASE", e),
                        Ok(base) => {
                            // the ring is stopped when the reply arrives: every dispatch that was
                            // entered has finished, so the reported index counts all of them
                            let done = orc_v.lock().unwrap().rings[r].dispatches;
                            if base != (done & 0xffff) as u32 {
                                sched::violation(Violation::new(
                                    "C12",
                                    "vring_base_not_final",
                                    "GET_VRING_BASE",
                                    format!("GET_VRING_BASE({r}) reported next-available index {base}, but {done} requests had been taken off ring {r} by the time the reply arrived (each event-handler call advances the index by one; a call still under way when the index was read is missing)"),
                                ));
                            }
                        }
                    }
                    {
                        // GET_VRING_BASE also drops the call descriptor: every event-handler call
                        // entered before the reply has finished by now, and each of them raised
                        // its interrupt on the descriptor that was installed
                        let done = orc_v.lock().unwrap().rings[r].dispatches;
                        let (c, at_install) = calls_v.lock().unwrap()[r].clone();
                        let got = c.read().unwrap_or(0);
                        if got != done - at_install {
                            sched::violation(Violation::new(
                                "C12",
                                "interrupt_lost_at_stop",
                                "GET_VRING_BASE",
                                format!("ring {r}: {} event-handler calls since its call descriptor was installed, each ending with signal_used_queue(), but the descriptor counted {got} when the reply to GET_VRING_BASE arrived (a call still under way when the descriptor was dropped lost its interrupt)", done - at_install),
                            ));
                        }
                        let nc = Arc::new(EventFd::new(libc::EFD_NONBLOCK).expect("eventfd"));
                        if let Err(e) = vmm.fe.set_vring_call(r, &nc) {
                            fail("SET_VRING_CALL", e);
                        }
                        calls_v.lock().unwrap()[r] = (nc, done);
                    }
                    {
                        // kicks on the dropped descriptor are moot from here on
                        let mut g = orc_v.lock().unwrap();
                        g.kickfds[r] = None;
                    }
                    quiet(r, "GET_VRING_BASE");
                    sched::point("vmm.between_stop_and_restart");
                    let fd = mkfd();
                    // "started again" begins with sending the new kick descriptor; it only
                    // matters if the ring is enabled
                    if enabled[r] {
                        loud(r);
                    }
                    if let Err(e) = vmm.fe.set_vring_kick(r, &fd) {
                        fail("SET_VRING_KICK", e);
                    }
                    let mut g = orc_v.lock().unwrap();
                    g.kickfds[r] = Some(fd);
                    g.rings[r].gen += 1;
                }
                Ctl::ResetReenable => {
                    if let Err(e) = vmm.fe.reset_device() {
                        fail("RESET_DEVICE", e);
                    }
                    for r in 0..nrings {
                        quiet(r, "RESET_DEVICE");
                        enabled[r] = false;
                    }
                    sched::point("vmm.after_reset");
                    if let Err(e) = vmm.fe.set_features(offered) {
                        fail("SET_FEATURES", e);
                    }
                    for r in 0..nrings {
                        loud(r);
                        if let Err(e) = vmm.fe.set_vring_enable(r, true) {
                            fail("SET_VRING_ENABLE 1", e);
                        }
                        enabled[r] = true;
                    }
                }
            }
        }
        // final activation: every ring started (it is) and enabled
        for r in 0..nrings {
            if !enabled[r] {
                loud(r);
                if let Err(e) = vmm.fe.set_vring_enable(r, true) {
                    fail("SET_VRING_ENABLE 1", e);
                }
            }
        }
        *slot2.lock().unwrap() = Some(vmm);
    });
    let orc_g = orc.clone();
    let sim_g = sim.clone();
    let guest = sim.spawn("guest", "guest", move || {
        for r in kick_rings {
            sched::point("guest.before_kick");
            let fd = orc_g.lock().unwrap().kickfds[r].clone();
            if let Some(fd) = fd {
                let s = sim_g.seq();
                {
                    let mut g = orc_g.lock().unwrap();
                    let gen = g.rings[r].gen;
                    g.rings[r].last_kick_seq = s;
                    g.rings[r].last_kick_gen = gen;
                    g.rings[r].kicks += 1;
                }
                let _ = fd.write(1);
                sim_g.probe("guest_kick");
            } else {
                sim_g.probe("guest_kick_skipped_no_descriptor");
            }
        }
    });
    sim.join(guest);
    sim.join(vmm_task);
    sim.settle();
    // every event-handler call raised its interrupt on the call descriptor installed at the time
    for r in 0..nrings {
        let done = orc.lock().unwrap().rings[r].dispatches;
        let (c, at_install) = calls.lock().unwrap()[r].clone();
        let got = c.read().unwrap_or(0);
        if got != done - at_install {
            sched::soft_violation(Violation::new(
                "C12",
                "interrupt_count",
                "",
                format!("ring {r}: {} event-handler calls since its current call descriptor was installed, but the descriptor counted {got}", done - at_install),
            ));
        }
    }
    // liveness: with every ring started and enabled, the last kick on the current descriptor
    // must have been followed by a dispatch
    {
        let g = orc.lock().unwrap();
        for (r, ro) in g.rings.iter().enumerate() {
            if ro.kicks > 0 && ro.last_kick_gen == ro.gen && ro.last_kick_seq > ro.last_dispatch_seq {
                let v = Violation::new(
                    "C12",
                    "kick_lost",
                    "",
                    format!(
                        "ring {r}: a kick was raised at event {} on the current kick descriptor, the ring is started and enabled and the system is quiescent, but the last event-handler invocation for it was at event {} ({} kicks, {} dispatches)",
                        ro.last_kick_seq, ro.last_dispatch_seq, ro.kicks, ro.dispatches
                    ),
                );
                drop(g);
                sched::soft_violation(v);
                break;
            }
        }
    }
    drop(slot.lock().unwrap().take());
    let _ = daemon.wait();
    drop(daemon);
    close_leaked_exit_consumers(&log);
    drop(listener);
    orc.lock().unwrap().kickfds.clear();
    let _ = (nkicks, VhostUserProtocolFeatures::MQ, spec::HDR);
    RunOut {
        desc,
        nontrivial: false,
        sweep_key: None,
    }
}
