//! C07: feature-dependent operations are impossible before the feature is negotiated.

use super::fe::{self, gen_api_req, FeSession};
use super::server::{self, gen_script, gen_valid_req, Policy, Session};
use super::*;
use crate::rec::Script;
use crate::rng::Tape;
use crate::sched::Sim;
use crate::spec::{self, pf, FReq};

/// request types (indexes of gen_valid_req) whose use is tied to a feature
const GATED_TYPES: [u64; 17] = [5, 15, 16, 17, 18, 19, 20, 21, 23, 24, 25, 26, 27, 28, 29, 30, 13];
/// bits swept exhaustively: the ten gates of the server plus DEVICE_STATE (frontend only)
const SWEEP_BITS: [u64; 11] = [
    pf::MQ,
    pf::LOG_SHMFD,
    pf::CONFIG,
    pf::BACKEND_REQ,
    pf::INFLIGHT_SHMFD,
    pf::RESET_DEVICE,
    pf::CONFIGURE_MEM_SLOTS,
    pf::SHARED_OBJECT,
    pf::DEVICE_STATE,
    pf::SHMEM,
    pf::REPLY_ACK,
];

pub fn subset(i: u64) -> u64 {
    let mut m = 0;
    for (k, b) in SWEEP_BITS.iter().enumerate() {
        if (i >> k) & 1 == 1 {
            m |= b;
        }
    }
    m
}

/// A negotiation history with gated operations interleaved at arbitrary positions.
fn gen_history(t: &mut Tape, sub: u64, api: bool) -> Vec<(FReq, Script)> {
    let n = t.range(3, 8);
    let mut v = Vec::new();
    let offered_pf = t.chance(5, 6);
    let offered = if offered_pf { spec::VHOST_USER_F_PROTOCOL_FEATURES } else { 0 } | (t.lattice64() & !spec::VHOST_USER_F_PROTOCOL_FEATURES);
    for _ in 0..n {
        let k = t.draw(10);
        let (r, s) = match k {
            0 => (
                FReq::GetFeatures,
                Script {
                    val: offered,
                    ..Default::default()
                },
            ),
            1 => {
                let x = match t.draw(3) {
                    0 => offered,
                    1 => offered & !spec::VHOST_USER_F_PROTOCOL_FEATURES,
                    _ => offered | spec::VHOST_USER_F_PROTOCOL_FEATURES,
                };
                (FReq::SetFeatures(x), Script::default())
            }
            2 => (
                FReq::GetProtocolFeatures,
                Script {
                    val: if t.chance(1, 2) { sub } else { t.lattice64() & 0x3d_ffff },
                    ..Default::default()
                },
            ),
            3 | 4 => {
                let x = match t.draw(3) {
                    0 | 1 => sub,
                    _ => sub & t.raw(),
                };
                (FReq::SetProtocolFeatures(x), Script::default())
            }
            _ => {
                let typ = *t.pick(&GATED_TYPES);
                let r = if api { gen_api_req(t, typ) } else { gen_valid_req(t, typ) };
                let s = gen_script(t, &r, 0);
                (r, s)
            }
        };
        v.push((r, s));
    }
    v
}

pub fn def() -> PropDef {
    PropDef {
        id: "C07",
        run,
        quick_runs: 36_000,
        thorough_runs: 1_500_000,
        level: "exploration",
        rule: "index%3: 0 = real Frontend API against the real backend server, 1 = raw spec peer against the real backend server, 2 = real Backend proxy with its three flags drawn; the acknowledged protocol-feature set is subset number (index/3 mod 2048) of the 11 gating bits (10 server gates + DEVICE_STATE, plus REPLY_ACK), so every subset is enumerated; the history (3..8 steps) mixes GET/SET_FEATURES with and without VHOST_USER_F_PROTOCOL_FEATURES, GET/SET_PROTOCOL_FEATURES of the subset or a part of it, and gated operations at random positions; oracle: reference gate table; a refused frontend call puts no byte on the wiretap, a refused server request leaves the handler log unchanged; distinct = distinct (workload tape, interleaving, fault trace); non-trivial = history contains a gated operation",
        assumptions: ASSUME,
        real: REAL_W,
        stubs: STUB_W,
        sweep_size: |_| 2 * 2048,
        sweep_desc: "all 2^11 subsets of the gating protocol-feature bits, on the frontend endpoint (index%3==0) and on the backend request server (index%3==1)",
        panic_prop: "C07",
    }
}

fn run(sim: &Sim, cfg: &RunCfg) -> RunOut {
    sim.choose_policy();
    let i = cfg.index / 3;
    let sub = subset(i % 2048);
    match cfg.index % 3 {
        0 => {
            let sess = sim.with_w(|t| {
                let hist = gen_history(t, sub, true);
                let all = hist
                    .into_iter()
                    .map(|(r, mut s)| {
                        if matches!(r, FReq::GetQueueNum) {
                            s.val = fe::MAXQ;
                        }
                        (r, s, None)
                    })
                    .collect();
                let need_reply = t.chance(1, 2);
                let policy = if t.chance(1, 2) { Policy::App } else { Policy::Daemon };
                FeSession {
                    items: fe::build_fe_items(all, need_reply, policy),
                    need_reply,
                    policy,
                    adapter_mutex: t.chance(1, 2),
                    hdr_noise: 0,
                }
            });
            let d = format!("subset={sub:#x} {}", fe::describe(&sess));
            crate::runner::set_desc(&d);
            for it in &sess.items {
                match &it.exp {
                    fe::Expect::LocalReject(_) => sim.probe("frontend_refused_locally"),
                    fe::Expect::Sent(e) if !e.called => sim.probe("server_refused_gated_request"),
                    fe::Expect::Sent(_) if it.req.gate() != spec::Gate::None => sim.probe("gated_operation_admitted"),
                    _ => {}
                }
            }
            let res = fe::run_fe_session(sim, &sess, false);
            let j = fe::Judge {
                prop: "C07",
                c01: false,
                c02: true,
                c03: false,
            };
            if let Err(v) = fe::judge_fe(&j, &sess, &res) {
                sim.violation(v);
            }
            RunOut {
                desc: d,
                nontrivial: true,
                sweep_key: Some(i % 2048),
            }
        }
        1 => {
            let sess = sim.with_w(|t| {
                let hist = gen_history(t, sub, false);
                let policy = if t.chance(1, 2) { Policy::App } else { Policy::Daemon };
                let items = server::build_items(t, hist, policy, 0);
                Session {
                    items,
                    policy,
                    lockstep: t.chance(1, 2),
                    adapter_mutex: t.chance(1, 2),
                    truncate: None,
                }
            });
            let d = format!("subset={sub:#x} {}", server::describe(&sess));
            crate::runner::set_desc(&d);
            for it in &sess.items {
                if !it.exp.called {
                    sim.probe("server_refused_gated_request");
                } else if it.req.gate() != spec::Gate::None {
                    sim.probe("gated_operation_admitted");
                }
                if it.exp.stop {
                    break;
                }
            }
            let res = server::run_session(sim, &sess);
            if let Err(v) = server::judge("C07", &sess, &res) {
                sim.violation(v);
            }
            RunOut {
                desc: d,
                nontrivial: true,
                sweep_key: Some(2048 + i % 2048),
            }
        }
        _ => {
            let sess = sim.with_w(|t| super::breq::gen_bsession(t, None, false));
            let d = super::breq::describe(&sess);
            crate::runner::set_desc(&d);
            let res = super::breq::run_bsession(sim, &sess, false);
            if let Err(v) = super::breq::judge_b("C07", sim, &sess, &res, false) {
                sim.violation(v);
            }
            RunOut {
                desc: d,
                nontrivial: true,
                sweep_key: None,
            }
        }
    }
}

#[allow(dead_code)]
fn _unused(_: &mut Tape) {}
