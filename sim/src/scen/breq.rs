//! Backend-initiated requests: real `Backend` proxy <-> real `FrontendReqHandler`.
//! Serves C18, C01 (backend-request channel) and C07 (proxy gating).

use std::fs::File;
use std::os::unix::io::{AsRawFd, FromRawFd};
use std::os::unix::net::UnixStream;
use std::sync::{Arc, Mutex};

use vhost::vhost_user::{Backend, FrontendReqHandler, VhostUserFrontendReqHandler};

use super::server::gen_uuid;
use super::*;
use crate::fdu;
use crate::rec::{be_call, FrRecDirect, FrRecMut, Script};
use crate::rng::Tape;
use crate::sched::{self, FaultCfg, Sim, Violation};
use crate::spec::{self, br, BReq, MMap};

pub const N_BREQ: u64 = 5;

pub fn gen_breq(t: &mut Tape, typ: u64) -> BReq {
    let mm = |t: &mut Tape| {
        let len = t.lattice64().max(1);
        MMap {
            shmid: t.draw(256) as u8,
            fd_offset: t.lattice64().min(u64::MAX - len),
            shm_offset: t.lattice64().min(u64::MAX - len),
            len,
            flags: t.draw(2),
        }
    };
    match typ {
        0 => BReq::SharedObjectAdd(gen_uuid(t)),
        1 => BReq::SharedObjectRemove(gen_uuid(t)),
        2 => BReq::SharedObjectLookup(gen_uuid(t)),
        3 => BReq::ShmemMap(mm(t)),
        _ => BReq::ShmemUnmap(mm(t)),
    }
}

pub struct BItem {
    pub req: BReq,
    pub script: Script,
}

pub struct BSession {
    pub items: Vec<BItem>,
    pub reply_ack: bool,
    /// the frontend-side server has REPLY_ACK switched on although the proxy does not ask for
    /// acknowledgements (e.g. the channel was attached before the feature was acknowledged):
    /// requests then lack NEED_REPLY and nothing may be written back
    pub server_ack_only: bool,
    pub shared_object: bool,
    pub shmem: bool,
    pub adapter_mutex: bool,
}

pub fn gen_bsession(t: &mut Tape, forced: Option<u64>, gates_open: bool) -> BSession {
    let n = t.range(1, 10);
    let mut items = Vec::new();
    for i in 0..n {
        let typ = match (forced, i) {
            (Some(f), 0) => f,
            _ => t.draw(N_BREQ),
        };
        let req = gen_breq(t, typ);
        let script = match t.draw(6) {
            0 | 1 => Script::default(),
            2 => Script {
                val: t.lattice64().max(1),
                ..Default::default()
            },
            3 => Script {
                fail: true,
                errno: *t.pick(&[libc::EINVAL, libc::ENOSYS, libc::ENOMEM, libc::EIO, libc::EPERM, libc::EBADF, 1, 4095]),
                ..Default::default()
            },
            4 => Script {
                fail: true,
                errno: 0,
                ..Default::default()
            },
            _ => Script {
                val: *t.pick(&[1u64, 2, u64::MAX, 1 << 63, 0x100]),
                ..Default::default()
            },
        };
        items.push(BItem { req, script });
    }
    BSession {
        items,
        reply_ack: t.chance(1, 2),
        server_ack_only: t.chance(1, 3),
        shared_object: gates_open || t.chance(1, 2),
        shmem: gates_open || t.chance(1, 2),
        adapter_mutex: t.chance(1, 2),
    }
}

pub struct BResult {
    pub rets: Vec<Result<u64, String>>,
    pub wire_after: Vec<usize>,
    pub calls: Vec<(BReq, Option<File>)>,
    pub lent: Vec<Option<File>>,
    pub srv_results: Vec<Result<u64, String>>,
}

enum AnyFr {
    Direct(Arc<FrRecDirect>),
    Mutexed(Arc<Mutex<FrRecMut>>),
}

fn serve_n<S: VhostUserFrontendReqHandler>(mut h: FrontendReqHandler<S>, n: usize, out: Arc<Mutex<Vec<Result<u64, String>>>>) {
    for _ in 0..n {
        sched::point("frsrv.before_request");
        let r = h.handle_request();
        let fatal = matches!(&r, Err(e) if !matches!(e, vhost::vhost_user::Error::ReqHandlerError(_)));
        out.lock().unwrap().push(r.map_err(|e| format!("{e:?}")));
        if fatal {
            break;
        }
    }
    drop(h);
}

fn gate_open(s: &BSession, r: &BReq) -> bool {
    match r {
        BReq::ConfigChange => false,
        BReq::SharedObjectAdd(_) | BReq::SharedObjectRemove(_) | BReq::SharedObjectLookup(_) => s.shared_object,
        BReq::ShmemMap(_) | BReq::ShmemUnmap(_) => s.shmem,
    }
}

pub fn run_bsession(sim: &Sim, sess: &BSession, seg_faults: bool) -> BResult {
    let scripts: Vec<Script> = sess
        .items
        .iter()
        .filter(|i| gate_open(sess, &i.req))
        .map(|i| i.script.clone())
        .collect();
    let nsent = scripts.len();
    let out = Arc::new(Mutex::new(Vec::new()));
    let o2 = out.clone();
    let (any, tx_dup, srv_task) = if sess.adapter_mutex {
        let m = Arc::new(Mutex::new(FrRecMut::default()));
        m.lock().unwrap().scripts = scripts;
        let mut h = FrontendReqHandler::new(m.clone()).expect("FrontendReqHandler::new");
        h.set_reply_ack_flag(sess.reply_ack || sess.server_ack_only);
        // SAFETY: dup of a valid socket fd.
        let d = unsafe { libc::dup(h.get_tx_raw_fd()) };
        sim.label_fd(h.as_raw_fd(), "frsrv");
        let t = sim.spawn("frsrv", "frsrv", move || serve_n(h, nsent, o2));
        (AnyFr::Mutexed(m), d, t)
    } else {
        let dct = Arc::new(FrRecDirect::default());
        dct.inner.lock().unwrap().scripts = scripts;
        let mut h = FrontendReqHandler::new(dct.clone()).expect("FrontendReqHandler::new");
        h.set_reply_ack_flag(sess.reply_ack || sess.server_ack_only);
        // SAFETY: dup of a valid socket fd.
        let d = unsafe { libc::dup(h.get_tx_raw_fd()) };
        sim.label_fd(h.as_raw_fd(), "frsrv");
        let t = sim.spawn("frsrv", "frsrv", move || serve_n(h, nsent, o2));
        (AnyFr::Direct(dct), d, t)
    };
    assert!(tx_dup >= 0);
    sim.label_fd(tx_dup, "proxy");
    if seg_faults {
        sim.st().faults = FaultCfg {
            short_send: 250,
            short_recv: 250,
            ..Default::default()
        };
    }
    // SAFETY: we own tx_dup.
    let be = Backend::from_stream(unsafe { UnixStream::from_raw_fd(tx_dup) });
    be.set_reply_ack_flag(sess.reply_ack);
    be.set_shared_object_flag(sess.shared_object);
    be.set_shmem_flag(sess.shmem);
    let reqs: Vec<BReq> = sess.items.iter().map(|i| i.req.clone()).collect();
    let lent: Vec<Option<File>> = reqs
        .iter()
        .map(|r| if r.nfds() > 0 { Some(fdu::memfd("blent", 4096)) } else { None })
        .collect();
    let lent_dups: Vec<Option<File>> = lent.iter().map(|f| f.as_ref().map(|f| f.try_clone().unwrap())).collect();
    let rets = Arc::new(Mutex::new((Vec::new(), Vec::new())));
    let r2 = rets.clone();
    let sim2 = sim.clone();
    let caller = sim.spawn("proxy", "proxy", move || {
        for (r, f) in reqs.iter().zip(lent_dups.iter()) {
            let res = be_call(&be, r, f.as_ref());
            let w = sim2.wire_for("proxy").len();
            let mut g = r2.lock().unwrap();
            g.0.push(res.map_err(|e| format!("{e:?}")));
            g.1.push(w);
        }
        drop(be);
    });
    sim.join(caller);
    sim.join(srv_task);
    sim.unlabel_fd(tx_dup);
    let calls = match &any {
        AnyFr::Direct(d) => d.inner.lock().unwrap().calls.drain(..).map(|c| (c.req, c.file)).collect(),
        AnyFr::Mutexed(m) => m.lock().unwrap().calls.drain(..).map(|c| (c.req, c.file)).collect(),
    };
    let (rets, wire_after) = std::mem::take(&mut *rets.lock().unwrap());
    let srv_results = std::mem::take(&mut *out.lock().unwrap());
    BResult {
        rets,
        wire_after,
        calls,
        lent,
        srv_results,
    }
}

pub fn expected_ack(s: &Script) -> u64 {
    if s.fail {
        if s.errno != 0 {
            (-(s.errno as i64)) as u64
        } else {
            (-(libc::EINVAL as i64)) as u64
        }
    } else {
        s.val
    }
}

pub fn judge_b(prop: &str, sim: &Sim, sess: &BSession, res: &BResult, c01: bool) -> Result<(), Violation> {
    let v = |clause: &str, keys: &str, msg: String| Err(Violation::new(prop, clause, keys, msg));
    let mut wire_seen = 0usize;
    let mut ci = 0usize;
    let sent: Vec<(usize, &BItem)> = sess.items.iter().enumerate().filter(|(_, i)| gate_open(sess, &i.req)).collect();
    for (k, it) in sess.items.iter().enumerate() {
        let name = it.req.name();
        let ret = &res.rets[k];
        if !gate_open(sess, &it.req) {
            if ret.is_ok() {
                return v("gated_request_accepted", name, format!("request {k} {name} accepted although its feature flag is not set"));
            }
            if res.wire_after[k] != wire_seen {
                return v("gated_request_touched_wire", name, format!("request {k} {name} refused but bytes were written"));
            }
            continue;
        }
        // handler log
        match res.calls.get(ci) {
            None => return v("handler_not_invoked", name, format!("request {k} {:?} never reached the frontend handler; server results {:?}", it.req, res.srv_results)),
            Some((got, file)) => {
                if *got != it.req {
                    return v("handler_args", name, format!("request {k}: handler saw {got:?}, proxy was given {:?}", it.req));
                }
                match (file, &res.lent[k]) {
                    (Some(f), Some(l)) => {
                        if !fdu::same_open_file(f.as_raw_fd(), l.as_raw_fd()) {
                            return v("handler_file_identity", name, format!("request {k}: descriptor seen by the handler is not the proxy caller's open file"));
                        }
                    }
                    (None, None) => {}
                    (a, b) => return v("handler_files", name, format!("request {k}: handler descriptor present={} expected={}", a.is_some(), b.is_some())),
                }
            }
        }
        ci += 1;
        // proxy return value
        if sess.reply_ack {
            let want_ok = !it.script.fail && it.script.val == 0;
            if ret.is_ok() != want_ok {
                return v(
                    if want_ok { "success_reported_as_error" } else { "failure_reported_as_success" },
                    name,
                    format!("request {k} {name}: handler outcome fail={} val={:#x} -> proxy returned {ret:?}", it.script.fail, it.script.val),
                );
            }
        } else if ret.is_err() {
            return v("error_without_ack", name, format!("request {k} {name}: no REPLY_ACK, yet the proxy returned {ret:?}"));
        }
        wire_seen = res.wire_after[k];
    }
    if res.calls.len() > ci {
        return v("extra_handler_call", res.calls[ci].0.name(), format!("frontend handler invoked {} times for {} requests", res.calls.len(), ci));
    }
    // acknowledgements on the wire
    let mut acks = Vec::new();
    for w in sim.wire_for("frsrv") {
        acks.extend_from_slice(&w.bytes);
    }
    let msgs = match spec::split_stream(&acks) {
        Ok(m) => m,
        Err(e) => return v("ack_framing", "", format!("acknowledgement stream does not parse: {e}")),
    };
    if !sess.reply_ack {
        if !msgs.is_empty() {
            return v("ack_without_reply_ack", "", format!("{} acknowledgements written although the proxy asked for none (its REPLY_ACK is off, no request carried NEED_REPLY; frontend-side server REPLY_ACK {})", msgs.len(), sess.server_ack_only));
        }
    } else {
        if msgs.len() != sent.len() {
            return v("ack_count", "", format!("{} acknowledgements for {} requests", msgs.len(), sent.len()));
        }
        for ((h, body), (k, it)) in msgs.iter().zip(sent.iter()) {
            let name = it.req.name();
            if h.code != it.req.code() || h.flags != (spec::VERSION | spec::F_REPLY) || body.len() != 8 {
                return v("ack_header", name, format!("ack {k}: header {h:?} for request code {}", it.req.code()));
            }
            let val = spec::g64(body, 0);
            if val != expected_ack(&it.script) {
                return v("ack_value", name, format!("ack {k} {name}: value {val:#x}, handler outcome implies {:#x}", expected_ack(&it.script)));
            }
        }
    }
    if c01 {
        // proxy -> wire bytes
        let mut stream = Vec::new();
        let mut fd_at = Vec::new();
        for w in sim.wire_for("proxy") {
            if w.nfds > 0 {
                fd_at.push((stream.len(), w.nfds));
            }
            stream.extend_from_slice(&w.bytes);
        }
        let msgs = match spec::split_stream(&stream) {
            Ok(m) => m,
            Err(e) => return v("wire_framing", "", format!("proxy byte stream does not parse: {e}")),
        };
        if msgs.len() != sent.len() {
            return v("wire_message_count", "", format!("proxy wrote {} messages for {} requests", msgs.len(), sent.len()));
        }
        let mut off = 0;
        for ((h, body), (k, it)) in msgs.iter().zip(sent.iter()) {
            let name = it.req.name();
            let want_flags = spec::VERSION | if sess.reply_ack { spec::F_NEED_REPLY } else { 0 };
            if h.code != it.req.code() {
                return v("wire_code", name, format!("request {k} {name}: code {} on the wire", h.code));
            }
            if h.flags != want_flags {
                return v("wire_flags", name, format!("request {k} {name}: flags {:#x}, expected {:#x}", h.flags, want_flags));
            }
            if *body != it.req.body() {
                return v("wire_body", name, format!("request {k} {name}: payload {:02x?} differs from spec encoding {:02x?}", body, it.req.body()));
            }
            let nf: usize = fd_at.iter().filter(|(o, _)| *o == off).map(|(_, n)| *n).sum();
            if nf != it.req.nfds() {
                return v("wire_fds", name, format!("request {k} {name}: {nf} descriptors on the first byte, expected {}", it.req.nfds()));
            }
            let end = off + spec::HDR + body.len();
            if fd_at.iter().any(|(o, _)| *o > off && *o < end) {
                return v("fds_not_on_first_byte", name, format!("request {k} {name}: descriptors on a later chunk"));
            }
            off = end;
        }
    }
    let _ = br::MAX_DEFINED;
    Ok(())
}

pub fn describe(s: &BSession) -> String {
    let names: Vec<String> = s
        .items
        .iter()
        .map(|i| {
            format!(
                "{}{}",
                i.req.name(),
                if i.script.fail {
                    format!("!errno{}", i.script.errno)
                } else if i.script.val != 0 {
                    format!("!val{:#x}", i.script.val)
                } else {
                    String::new()
                }
            )
        })
        .collect();
    format!(
        "proxy<->frontend-server reply_ack={} server_ack_only={} shared_object={} shmem={} mutex_adapter={} requests=[{}]",
        s.reply_ack,
        s.server_ack_only,
        s.shared_object,
        s.shmem,
        s.adapter_mutex,
        names.join(",")
    )
}

pub fn def_c18() -> PropDef {
    PropDef {
        id: "C18",
        run: run_c18,
        quick_runs: 30_000,
        thorough_runs: 1_000_000,
        level: "exploration",
        rule: "seeded histories of 1..10 backend-initiated requests (first request kind swept by index) through the real Backend proxy against the real FrontendReqHandler with a recording handler (direct or Mutex adapter) whose result per request is scripted: 0, non-zero values, Err with an errno from several classes, Err without errno; REPLY_ACK on/off; half of the runs with short reads/writes; distinct = distinct (workload tape, interleaving, fault trace); non-trivial = >= 2 requests or a fault fired or a scheduling choice existed",
        assumptions: ASSUME,
        real: REAL_W,
        stubs: STUB_W,
        sweep_size: |_| N_BREQ,
        sweep_desc: "each of the five request kinds appears as first request of some history",
        panic_prop: "C18",
    }
}

fn run_c18(sim: &Sim, cfg: &RunCfg) -> RunOut {
    sim.choose_policy();
    let sess = sim.with_w(|t| gen_bsession(t, Some(cfg.index % N_BREQ), true));
    let d = describe(&sess);
    crate::runner::set_desc(&d);
    let res = run_bsession(sim, &sess, (cfg.index / N_BREQ) % 2 == 1);
    if let Err(v) = judge_b("C18", sim, &sess, &res, false) {
        sim.violation(v);
    }
    RunOut {
        desc: d,
        nontrivial: sess.items.len() >= 2,
        sweep_key: Some(cfg.index % N_BREQ),
    }
}
