//! C15: dirty-page logging records every backend write, precisely and atomically.

use std::collections::BTreeSet;
use std::os::unix::fs::FileExt;
use std::os::unix::io::AsRawFd;
use std::sync::{Arc, Mutex};

use vhost::vhost_user::message::{VhostUserHeaderFlag, VhostUserProtocolFeatures};
use vhost::vhost_user::{Listener, VhostUserFrontend};
use vhost::{VhostBackend, VhostUserDirtyLogRegion, VringConfigData};
use vhost_user_backend::bitmap::BitmapMmapRegion;
use vhost_user_backend::VringRwLock;
use vm_memory::bitmap::Bitmap;
use vm_memory::{Bytes, GuestAddress, GuestAddressSpace, GuestMemory, GuestMemoryAtomic, GuestMemoryMmap, GuestMemoryRegion};
use vmm_sys_util::eventfd::EventFd;

use super::daemon::*;
use super::*;
use crate::fdu;
use crate::rng::Tape;
use crate::sched::{self, Sim, Violation};
use crate::spec::{self, pf};

type B = BitmapMmapRegion;
type V = VringRwLock<GM<B>>;

pub fn def() -> PropDef {
    PropDef {
        id: "C15",
        run,
        quick_runs: 12000,
        thorough_runs: 1_500_000,
        level: "exploration",
        rule: "a live daemon with Bitmap = BitmapMmapRegion: 1..=4 page-aligned regions whose pages share log bytes, a log memfd mapped at a non-zero page-aligned offset with guard pages before and after the window and a size from {needed-1, needed, needed+1, needed+100, one page}; SET_LOG_BASE must be accepted iff the log covers the highest guest page; then index%3: 0 = one task performs writes (GuestMemory::write_slice and Bitmap::mark_dirty with offsets/lengths crossing 0, 1 and many page and region boundaries, zero and huge lengths, plus a used-ring update through a kicked vring) [pure-input part, weakest]; 1 = 2..=16 writer tasks on pages of the same log bytes interleaved at the lock/fetch_or sync points, optionally racing a second SET_LOG_BASE; 2 = histories mixing SET_LOG_BASE with ADD_MEM_REG / SET_MEM_TABLE followed by writes into the new regions; oracle: independent page set (bit n = byte n/8, bit n%8) compared with the log file bytes exactly, guard bytes untouched; non-trivial = at least one write was performed",
        assumptions: ASSUME,
        real: REAL_D,
        stubs: STUB_D,
        sweep_size: no_sweep,
        sweep_desc: "",
        panic_prop: "C15",
    }
}

struct LogFile {
    file: std::fs::File,
    off: u64,
    size: u64,
    flen: u64,
}

impl LogFile {
    fn new(off_pages: u64, size: u64) -> LogFile {
        let off = off_pages * PAGE;
        let flen = off + size.div_ceil(PAGE) * PAGE + PAGE;
        LogFile {
            file: fdu::memfd("dirtylog", flen),
            off,
            size,
            flen,
        }
    }
    fn bytes(&self) -> Vec<u8> {
        let mut b = vec![0u8; self.flen as usize];
        self.file.read_exact_at(&mut b, 0).expect("read log");
        b
    }
}

fn expected_log(pages: &BTreeSet<u64>, size: u64) -> Vec<u8> {
    let mut v = vec![0u8; size as usize];
    for p in pages {
        let i = (*p / 8) as usize;
        if i < v.len() {
            v[i] |= 1 << (p % 8);
        }
    }
    v
}

fn check_log(sim: &Sim, what: &str, log: &LogFile, pages: &BTreeSet<u64>) {
    let b = log.bytes();
    let win = &b[log.off as usize..(log.off + log.size) as usize];
    let want = expected_log(pages, log.size);
    if win != &want[..] {
        let i = win.iter().zip(want.iter()).position(|(a, b)| a != b).unwrap();
        let clause = if win[i] & !want[i] != 0 { "spurious_dirty_bit" } else { "missing_dirty_bit" };
        sim.violation(Violation::new(
            "C15",
            clause,
            what,
            format!("{what}: log byte {i} is {:#010b}, page-set oracle says {:#010b} (pages {:?})", win[i], want[i], pages.iter().filter(|p| **p / 8 == i as u64).collect::<Vec<_>>()),
        ));
    }
    if let Some(i) = b[..log.off as usize].iter().position(|x| *x != 0) {
        sim.violation(Violation::new("C15", "write_outside_log", what, format!("{what}: guard byte {i} before the log window was modified")));
    }
    if let Some(i) = b[(log.off + log.size) as usize..].iter().position(|x| *x != 0) {
        sim.violation(Violation::new("C15", "write_outside_log", what, format!("{what}: guard byte {i} after the log window was modified")));
    }
}

fn gen_regions(t: &mut Tape, pool: &mut FilePool, n: usize, first_page: u64, tag: u64) -> Vec<GRegion> {
    let mut v = Vec::new();
    let mut page = first_page;
    for i in 0..n {
        page += t.draw(4); // gaps of 0..3 pages: adjacent regions share log bytes
        let pages = t.range(1, 12);
        let size = pages * PAGE;
        let off = t.draw(3) * PAGE;
        v.push(GRegion {
            gpa: page * PAGE,
            size,
            uva: 0x7e00_0000_0000 + tag * 0x100_0000_0000 + (i as u64) * 0x1_0000_0000,
            off,
            file: pool.add(off + size),
        });
        page += pages;
    }
    v
}

fn pages_of(gpa: u64, len: u64) -> BTreeSet<u64> {
    let mut s = BTreeSet::new();
    if len > 0 {
        for p in gpa / PAGE..=(gpa + len - 1) / PAGE {
            s.insert(p);
        }
    }
    s
}

pub fn run(sim: &Sim, cfg: &RunCfg) -> RunOut {
    sim.choose_policy();
    swarm_short_io(sim);
    sim.st().hot = vec!["bitmap.fetch_or", "bitmap.read", "bitmap.write"];
    let mode = cfg.index % 3;
    let mut pool = FilePool::new();
    let (adapter, regions, off_pages, size_choice) = sim.with_w(|t| {
        let adapter = if t.chance(1, 2) { Adapter::Mutex } else { Adapter::RwLock };
        let n = t.range(1, 4) as usize;
        let first = t.draw(20);
        let regions = gen_regions(t, &mut pool, n, first, 0);
        (adapter, regions, t.range(1, 3), t.draw(5))
    });
    let top_page = |rs: &[GRegion]| rs.iter().map(|r| (r.gpa + r.size - 1) / PAGE).max().unwrap();
    let needed = top_page(&regions) / 8 + 1;
    let size = match size_choice {
        0 => (needed - 1).max(1),
        1 => needed,
        2 => needed + 1,
        3 => needed + 100,
        _ => PAGE.max(needed),
    };
    let stub = StubMut::<V, B>::new(
        StubCfg {
            num_queues: 1,
            queues_per_thread: vec![0b1],
            protocol_features: pf::MQ | pf::REPLY_ACK | pf::CONFIGURE_MEM_SLOTS | pf::LOG_SHMFD,
            add_used_on_event: true,
            ..Default::default()
        },
        sim,
    );
    let log = stub.log.clone();
    let mem: GM<B> = GuestMemoryAtomic::new(GuestMemoryMmap::<B>::new());
    let gm = mem.clone();
    let mut daemon = AnyDaemon::new(adapter, stub, mem);
    let path = sock_path();
    let mut listener = Listener::new(&path, true).expect("listener");
    let protos = pf::REPLY_ACK | pf::CONFIGURE_MEM_SLOTS | pf::LOG_SHMFD | pf::MQ;
    let kick = EventFd::new(libc::EFD_NONBLOCK).expect("eventfd");
    let connect = |daemon: &mut AnyDaemon<V, B>, listener: &mut Listener| -> Vmm {
        let mut vmm = connect_and_start(sim, daemon, listener, &path, 1).expect("start");
        let offered = vmm.fe.get_features().expect("get_features");
        let _ = vmm.fe.get_protocol_features().expect("get_protocol_features");
        vmm.fe.set_protocol_features(VhostUserProtocolFeatures::from_bits_retain(protos)).expect("set_protocol_features");
        vmm.fe.set_features(offered & !spec::VHOST_USER_F_PROTOCOL_FEATURES).expect("set_features");
        vmm.fe.set_hdr_flags(VhostUserHeaderFlag::NEED_REPLY);
        vmm.fe.set_vring_kick(0, &kick).expect("set_vring_kick");
        vmm
    };
    let mut vmm = connect(&mut daemon, &mut listener);
    let infos: Vec<_> = regions.iter().map(|r| pool.info(r)).collect();
    vmm.fe.set_mem_table(&infos).expect("set_mem_table");
    let lf = LogFile::new(off_pages, size);
    let desc = format!(
        "mode={mode} adapter={adapter:?} regions(gpa,size)={:x?} log: offset {:#x} size {size} (needed {needed})",
        regions.iter().map(|r| (r.gpa, r.size)).collect::<Vec<_>>(),
        lf.off
    );
    crate::runner::set_desc(&desc);
    let set_log = |vmm: &mut Vmm, lf: &LogFile| {
        vmm.fe.set_log_base(
            0,
            Some(VhostUserDirtyLogRegion {
                mmap_size: lf.size,
                mmap_offset: lf.off,
                mmap_handle: lf.file.as_raw_fd(),
            }),
        )
    };
    let r = set_log(&mut vmm, &lf);
    let must_accept = size >= needed;
    if r.is_ok() != must_accept {
        sim.violation(Violation::new(
            "C15",
            if must_accept { "sufficient_log_rejected" } else { "too_small_log_accepted" },
            "",
            format!("SET_LOG_BASE with a log of {size} bytes returned {r:?}; the highest guest page {} needs {needed} bytes", top_page(&regions)),
        ));
    }
    let mut nontrivial = false;
    if must_accept {
        let mut dirty: BTreeSet<u64> = BTreeSet::new();
        let in_mem = |rs: &[GRegion], gpa: u64| rs.iter().any(|r| gpa >= r.gpa && gpa < r.gpa + r.size);
        match mode {
            0 => {
                // ---- 15a: precision
                let writes: Vec<(usize, u64, u64, bool)> = sim.with_w(|t| {
                    let n = t.range(1, 8);
                    (0..n)
                        .map(|_| {
                            let ri = t.draw(regions.len() as u64) as usize;
                            let r = &regions[ri];
                            let o = match t.draw(5) {
                                0 => 0,
                                1 => r.size - 1,
                                2 => (t.draw(r.size / PAGE) * PAGE).saturating_sub(1),
                                _ => t.draw(r.size),
                            };
                            let len = match t.draw(7) {
                                0 => 0,
                                1 => 1,
                                2 => PAGE,
                                3 => PAGE + 1,
                                4 => r.size - o,
                                5 => u64::MAX / 2,
                                _ => t.draw(3 * PAGE),
                            };
                            (ri, o, len, t.chance(1, 2))
                        })
                        .collect()
                });
                for (ri, o, len, via_bitmap) in writes {
                    let r = &regions[ri];
                    nontrivial = true;
                    if via_bitmap {
                        // directly on the region's bitmap: pages beyond the region are ignored
                        let m = gm.memory();
                        let reg = m.find_region(GuestAddress(r.gpa)).expect("region");
                        reg.bitmap().mark_dirty(o as usize, len as usize);
                        let end = o.saturating_add(len).min(r.size);
                        if len > 0 && end > o {
                            dirty.extend(pages_of(r.gpa + o, end - o));
                        }
                    } else {
                        // through the guest-memory interface, clipped to mapped memory
                        let mut l = len.min(4 * PAGE);
                        while l > 0 && !(0..l).step_by(PAGE as usize).chain([l - 1]).all(|d| in_mem(&regions, r.gpa + o + d)) {
                            l /= 2;
                        }
                        if l > 0 {
                            let buf = vec![0xd1u8; l as usize];
                            if gm.memory().write_slice(&buf, GuestAddress(r.gpa + o)).is_ok() {
                                dirty.extend(pages_of(r.gpa + o, l));
                            }
                        }
                    }
                    check_log(sim, "after write", &lf, &dirty);
                }
                // a used-ring update through the vring (add_used in the stub backend)
                let r0 = &regions[0];
                if r0.size >= 2 * PAGE {
                    let cd = VringConfigData {
                        queue_max_size: 256,
                        queue_size: 256,
                        flags: 0,
                        desc_table_addr: r0.uva,
                        used_ring_addr: r0.uva + PAGE - 8,
                        avail_ring_addr: r0.uva + 0x400,
                        log_addr: None,
                    };
                    // the guest's used index starts at 0 (file write: not a backend write)
                    pool.write(r0, PAGE - 8 + 2, &[0, 0]);
                    if vmm.fe.set_vring_addr(0, &cd).is_ok() {
                        sched::point("guest.before_kick");
                        kick.write(1).expect("kick");
                        sim.settle();
                        // idx at used+2 (previous page), element 0 at used+4 .. used+12 (crosses into the next page)
                        dirty.extend(pages_of(r0.gpa + PAGE - 8 + 2, 2));
                        dirty.extend(pages_of(r0.gpa + PAGE - 8 + 4, 8));
                        check_log(sim, "after used-ring update", &lf, &dirty);
                        sim.probe("used_ring_update_logged");
                    }
                }
            }
            1 => {
                // ---- 15b: concurrent writers on bits of the same log bytes
                let (nw, plans, race_replace) = sim.with_w(|t| {
                    let nw = t.range(2, 16) as usize;
                    let plans: Vec<Vec<(u64, u64)>> = (0..nw)
                        .map(|_| {
                            let k = t.range(1, 3);
                            (0..k)
                                .map(|_| {
                                    let r = t.pick(&regions).clone();
                                    let o = t.draw(r.size);
                                    let l = (1 + t.draw(2 * PAGE)).min(r.size - o);
                                    (r.gpa + o, l)
                                })
                                .collect()
                        })
                        .collect();
                    (nw, plans, t.chance(1, 3))
                });
                nontrivial = true;
                let lf2 = LogFile::new(off_pages, size + 7);
                let after_replace: Arc<Mutex<Option<u64>>> = Arc::new(Mutex::new(None));
                let done: Arc<Mutex<Vec<(u64, u64, u64)>>> = Arc::new(Mutex::new(Vec::new()));
                let mut tasks = Vec::new();
                for (w, plan) in plans.iter().enumerate() {
                    let gm = gm.clone();
                    let plan = plan.clone();
                    let done = done.clone();
                    let sim2 = sim.clone();
                    tasks.push(sim.spawn(&format!("writer{w}"), "writer", move || {
                        for (gpa, l) in plan {
                            let started = sim2.seq();
                            let buf = vec![0xabu8; l as usize];
                            gm.memory().write_slice(&buf, GuestAddress(gpa)).expect("write");
                            done.lock().unwrap().push((gpa, l, started));
                        }
                    }));
                }
                if race_replace {
                    let r = set_log(&mut vmm, &lf2);
                    if let Err(e) = r {
                        sim.violation(Violation::new("C15", "sufficient_log_rejected", "second", format!("second SET_LOG_BASE failed: {e:?}")));
                    }
                    *after_replace.lock().unwrap() = Some(sim.seq());
                }
                for t in tasks {
                    sim.join(t);
                }
                let all = done.lock().unwrap().clone();
                if race_replace {
                    // every write that started after the replacing SET_LOG_BASE returned must be
                    // in the new log; writes that raced with it may be in either log; no bit of a
                    // page nobody wrote may be set in either
                    let cut = after_replace.lock().unwrap().unwrap();
                    let mut must: BTreeSet<u64> = BTreeSet::new();
                    let mut may: BTreeSet<u64> = BTreeSet::new();
                    for (gpa, l, started) in &all {
                        may.extend(pages_of(*gpa, *l));
                        if *started > cut {
                            must.extend(pages_of(*gpa, *l));
                        }
                    }
                    let b = lf2.bytes();
                    let win = &b[lf2.off as usize..(lf2.off + lf2.size) as usize];
                    for p in &must {
                        if win[(*p / 8) as usize] & (1 << (p % 8)) == 0 {
                            sim.violation(Violation::new("C15", "missing_dirty_bit", "after_replace", format!("page {p} written after the second SET_LOG_BASE returned is not in the new log")));
                        }
                    }
                    for (i, byte) in win.iter().enumerate() {
                        for bit in 0..8 {
                            if byte & (1 << bit) != 0 && !may.contains(&(i as u64 * 8 + bit)) {
                                sim.violation(Violation::new("C15", "spurious_dirty_bit", "after_replace", format!("page {} is marked in the new log but nobody wrote it", i * 8 + bit as usize)));
                            }
                        }
                    }
                    sim.probe("writers_raced_log_replace");
                } else {
                    for (gpa, l, _) in &all {
                        dirty.extend(pages_of(*gpa, *l));
                    }
                    check_log(sim, "after concurrent writers", &lf, &dirty);
                }
                let _ = nw;
            }
            _ => {
                // ---- 15c: logging stays in force across memory-table changes
                let (steps, extra) = sim.with_w(|t| {
                    let k = t.range(1, 3);
                    let steps: Vec<u64> = (0..k).map(|_| t.draw(2)).collect();
                    (steps, t.range(1, 2) as usize)
                });
                let mut current = regions.clone();
                let top = top_page(&regions);
                for (i, st) in steps.iter().enumerate() {
                    // new memory strictly below the highest page already covered by the log
                    let newr: Vec<GRegion> = sim.with_w(|t| {
                        let mut v = gen_regions(t, &mut pool, extra, 0, 1 + i as u64);
                        v.retain(|r| (r.gpa + r.size - 1) / PAGE <= top);
                        v
                    });
                    match sim.with_w(|t| t.draw(5)) {
                        0 | 1 => {
                            // a change of owner on the same connection first: the statement lets
                            // nothing but a memory-table change happen to the log, and whatever a
                            // reset does, it cannot leave old regions logging and new ones not
                            let r = vmm
                                .fe
                                .reset_owner()
                                .and_then(|_| vmm.fe.set_owner())
                                .and_then(|_| vmm.fe.get_features())
                                .and_then(|f| {
                                    vmm.fe.set_protocol_features(VhostUserProtocolFeatures::from_bits_retain(protos))?;
                                    vmm.fe.set_features(f & !spec::VHOST_USER_F_PROTOCOL_FEATURES)
                                });
                            if let Err(e) = r {
                                sim.violation(Violation::new("C15", "control_message_failed", "RESET_OWNER", format!("RESET_OWNER / SET_OWNER / renegotiation under a log in force failed: {e:?}")));
                            }
                            sim.probe("owner_reset_under_log");
                        }
                        2 => {
                            // SET_FEATURES once more, this time without VHOST_F_LOG_ALL (bit 26):
                            // the statement ties logging to the accepted SET_LOG_BASE alone
                            let r = vmm.fe.get_features().and_then(|f| vmm.fe.set_features(f & !spec::VHOST_USER_F_PROTOCOL_FEATURES & !(1u64 << 26)));
                            if let Err(e) = r {
                                sim.violation(Violation::new("C15", "control_message_failed", "SET_FEATURES", format!("SET_FEATURES under a log in force failed: {e:?}")));
                            }
                            sim.probe("features_renegotiated_under_log");
                        }
                        _ => {}
                    }
                    let res = if *st == 0 {
                        // ADD_MEM_REG of regions that do not overlap the current table
                        let mut ok = Ok(());
                        for r in &newr {
                            if current.iter().any(|c| overlaps(c, r)) {
                                continue;
                            }
                            ok = vmm.fe.add_mem_region(&pool.info(r));
                            if ok.is_err() {
                                break;
                            }
                            current.push(r.clone());
                        }
                        ok
                    } else {
                        if newr.is_empty() {
                            continue;
                        }
                        let mut nr = newr.clone();
                        nr.sort_by_key(|r| r.gpa);
                        nr.dedup_by(|a, b| overlaps(a, b));
                        let infos: Vec<_> = nr.iter().map(|r| pool.info(r)).collect();
                        let r = vmm.fe.set_mem_table(&infos);
                        if r.is_ok() {
                            current = nr;
                        }
                        r
                    };
                    if let Err(e) = res {
                        sim.violation(Violation::new("C15", "table_change_failed", "", format!("memory-table change after SET_LOG_BASE failed: {e:?}")));
                    }
                    // a write into every current region must be logged
                    for r in &current {
                        let o = sim.with_w(|t| t.draw(r.size));
                        if gm.memory().write_slice(&[0x77u8], GuestAddress(r.gpa + o)).is_ok() {
                            dirty.extend(pages_of(r.gpa + o, 1));
                            nontrivial = true;
                        }
                    }
                    check_log(sim, if *st == 0 { "after ADD_MEM_REG" } else { "after SET_MEM_TABLE" }, &lf, &dirty);
                }
                // ---- requests the log in force cannot go along with: they are refused, and a
                // refused request leaves memory table, notifications and the log as they were
                let table_of = |gm: &GM<B>| -> Vec<(u64, u64)> {
                    let mut v: Vec<(u64, u64)> = gm.memory().iter().map(|r| (r.start_addr().0, r.len())).collect();
                    v.sort();
                    v
                };
                let mut want: Vec<(u64, u64)> = current.iter().map(|r| (r.gpa, r.size)).collect();
                want.sort();
                match sim.with_w(|t| t.draw(3)) {
                    0 => {
                        // a region whose pages lie beyond what the log covers
                        let (first, pages) = sim.with_w(|t| (size * 8 + t.draw(4), t.range(1, 3)));
                        let r = GRegion {
                            gpa: first * PAGE,
                            size: pages * PAGE,
                            uva: 0x7d00_0000_0000,
                            off: 0,
                            file: pool.add(pages * PAGE),
                        };
                        let notified = log.lock().unwrap().update_memory;
                        let res = vmm.fe.add_mem_region(&pool.info(&r));
                        sim.settle();
                        if res.is_ok() {
                            sim.violation(Violation::new("C15", "uncoverable_region_accepted", "", format!("ADD_MEM_REG of pages {first}..{} accepted although the log in force ({size} bytes) ends at page {}", first + pages - 1, size * 8 - 1)));
                        }
                        let got = table_of(&gm);
                        let n2 = log.lock().unwrap().update_memory;
                        if got != want || n2 != notified {
                            sim.violation(Violation::new(
                                "C15",
                                "refused_region_changed_memory",
                                "",
                                format!("ADD_MEM_REG beyond the dirty log was refused ({res:?}), yet the backend's memory is {got:x?} (table before: {want:x?}) and update_memory ran {} more time(s)", n2 - notified),
                            ));
                        }
                        sim.probe("region_beyond_log_refused");
                    }
                    1 => {
                        // a second, too small log is refused; the connection ends; memory mapped by
                        // the next connection is still logged in the log that was accepted
                        let small = LogFile::new(off_pages, (top / 8).max(1));
                        if top / 8 >= 1 && set_log(&mut vmm, &small).is_err() {
                            drop(vmm);
                            let _ = daemon.wait();
                            vmm = connect(&mut daemon, &mut listener);
                            let newr: Vec<GRegion> = sim.with_w(|t| {
                                let mut v = gen_regions(t, &mut pool, 1, 0, 7);
                                v.retain(|r| (r.gpa + r.size - 1) / PAGE <= top);
                                v
                            });
                            if let Some(r) = newr.first() {
                                let infos = vec![pool.info(r)];
                                if vmm.fe.set_mem_table(&infos).is_ok() {
                                    let o = sim.with_w(|t| t.draw(r.size));
                                    if gm.memory().write_slice(&[0x55u8], GuestAddress(r.gpa + o)).is_ok() {
                                        dirty.extend(pages_of(r.gpa + o, 1));
                                        check_log(sim, "after a refused second SET_LOG_BASE and a new memory table", &lf, &dirty);
                                        let b = small.bytes();
                                        if b.iter().any(|x| *x != 0) {
                                            sim.violation(Violation::new("C15", "write_to_refused_log", "", "the log file of a refused SET_LOG_BASE was written to".to_string()));
                                        }
                                        sim.probe("refused_second_log_then_new_table");
                                    }
                                }
                            }
                        }
                    }
                    _ => {}
                }
            }
        }
    }
    drop(vmm);
    let _ = daemon.wait();
    drop(daemon);
    drop(gm);
    close_leaked_exit_consumers(&log);
    drop(listener);
    RunOut {
        desc,
        nontrivial,
        sweep_key: None,
    }
}
