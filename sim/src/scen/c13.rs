//! C13: guest memory table and address translation always reflect the accepted updates.

use vhost::vhost_user::{Listener, VhostUserFrontend};
use vhost::{VhostBackend, VringConfigData};
use vhost_user_backend::{VringMutex, VringRwLock, VringT};
use vm_memory::{GuestMemoryAtomic, GuestMemoryMmap};
use vmm_sys_util::eventfd::EventFd;

use super::daemon::*;
use super::*;
use crate::rng::Tape;
use crate::sched::{Sim, Violation};
use crate::spec::{self, pf};

#[derive(Clone, Debug)]
enum Op {
    SetTable(Vec<GRegion>),
    Add(GRegion),
    Rem { gpa: u64, size: u64, uva: u64 },
    /// SET_VRING_ADDR with (desc, avail, used) user addresses
    Probe { desc: u64, avail: u64, used: u64 },
    /// RESET_OWNER + SET_OWNER + renegotiation: table and translations stay as they are
    ResetOwner,
}

pub fn def() -> PropDef {
    PropDef {
        id: "C13",
        run,
        quick_runs: 12000,
        thorough_runs: 1_000_000,
        level: "exploration",
        rule: "a live daemon driven by the real Frontend (REPLY_ACK + NEED_REPLY) through a history of 1..10 of {SET_MEM_TABLE with 1..=8 regions, ADD_MEM_REG, REM_MEM_REG of an existing / absent / size-mismatched region, SET_VRING_ADDR probe, RESET_OWNER + SET_OWNER + renegotiation (table and translations stay)}; geometry from the tape: 1..64 pages, non-zero page-aligned mmap offsets, guest ranges on a small lattice so that adjacent, overlapping, duplicate and unordered layouts occur, synthetic user addresses anywhere in 64-bit space; faults: an eventfd instead of a mappable file (mmap fails by a real input); after a failed update the connection is re-established (the daemon stops serving on a failed request) and the history continues; oracle: reference table (sorted map + translation list) vs the memory handle passed to update_memory, bytes written through the memfd read back through GuestMemory and vice versa at region starts/ends/gaps, queue addresses sampled inside handle_event after a probe; non-trivial = history has >= 2 steps",
        assumptions: ASSUME,
        real: REAL_D,
        stubs: STUB_D,
        sweep_size: no_sweep,
        sweep_desc: "",
        panic_prop: "C13",
    }
}

pub fn run(sim: &Sim, cfg: &RunCfg) -> RunOut {
    sim.choose_policy();
    swarm_short_io(sim);
    let rw = sim.with_w(|t| t.chance(1, 2));
    if rw {
        run_v::<VringRwLock<GM<()>>>(sim, cfg)
    } else {
        run_v::<VringMutex<GM<()>>>(sim, cfg)
    }
}

fn gen_region(t: &mut Tape, pool: &mut FilePool, k: u64) -> GRegion {
    let pages = match t.draw(5) {
        0 => 1,
        1 => 2,
        2 => 64,
        _ => t.range(1, 16),
    };
    let size = pages * PAGE;
    // guest addresses on a lattice of 8-page slots, sometimes shifted: adjacency and overlap
    let slot = t.draw(12);
    let gpa = 0x10_0000 + slot * 8 * PAGE + if t.chance(1, 4) { t.draw(8) * PAGE } else { 0 };
    let off = t.draw(5) * PAGE;
    // (a file shorter than mmap_offset + size is not used as a failing input: mmap() beyond
    // end-of-file succeeds on Linux and the property does not say it must be refused)
    let file = match t.draw(12) {
        0 | 1 => pool.add_unmappable(),
        _ => pool.add(off + size + if t.chance(1, 2) { PAGE } else { 0 }),
    };
    // user addresses: disjoint by construction (one 2^40 slot per region), anywhere in 64 bits
    let hi = match t.draw(4) {
        0 => 0xffff_f000_0000_0000u64,
        1 => 0x7f00_0000_0000_0000,
        2 => 0x0000_7f00_0000_0000,
        _ => 0x8000_0000_0000_0000,
    };
    let uva = hi.wrapping_add(k << 40).wrapping_add(t.draw(16) * PAGE);
    let uva = uva.min(u64::MAX - size - PAGE) & !(PAGE - 1);
    GRegion { gpa, size, uva, off, file }
}

struct Model {
    /// current table in `mappings` order
    regs: Vec<GRegion>,
}

impl Model {
    fn translate(&self, va: u64) -> Option<u64> {
        for r in &self.regs {
            if va >= r.uva && va < r.uva + r.size {
                return Some(va - r.uva + r.gpa);
            }
        }
        None
    }
    fn sorted(&self) -> Vec<(u64, u64)> {
        let mut v: Vec<(u64, u64)> = self.regs.iter().map(|r| (r.gpa, r.size)).collect();
        v.sort();
        v
    }
}

fn run_v<V: VringT<GM<()>> + Clone + Send + Sync + 'static>(sim: &Sim, _cfg: &RunCfg) -> RunOut {
    let mut pool = FilePool::new();
    let (adapter, ops) = sim.with_w(|t| {
        let adapter = if t.chance(1, 2) { Adapter::Mutex } else { Adapter::RwLock };
        let n = t.range(1, 10);
        let mut ops: Vec<Op> = Vec::new();
        let mut known: Vec<GRegion> = Vec::new();
        let mut k = 0u64;
        for i in 0..n {
            let c = if i == 0 { 0 } else { t.draw(9) };
            match c {
                0 | 1 => {
                    let m = match t.draw(4) {
                        0 => 1,
                        1 => 8,
                        _ => t.range(1, 5),
                    };
                    let rs: Vec<GRegion> = (0..m)
                        .map(|_| {
                            k += 1;
                            gen_region(t, &mut pool, k)
                        })
                        .collect();
                    known.extend(rs.iter().cloned());
                    ops.push(Op::SetTable(rs));
                }
                2 | 3 => {
                    k += 1;
                    let r = gen_region(t, &mut pool, k);
                    known.push(r.clone());
                    ops.push(Op::Add(r));
                }
                8 => ops.push(Op::ResetOwner),
                4 => {
                    if known.is_empty() || t.chance(1, 4) {
                        ops.push(Op::Rem {
                            gpa: 0x7000_0000 + t.draw(4) * PAGE,
                            size: PAGE,
                            uva: 0x1234_0000,
                        });
                    } else {
                        let r = t.pick(&known).clone();
                        let size = if t.chance(1, 4) { r.size + PAGE } else { r.size };
                        // now and then the request names the region by guest address and size
                        // but carries another user address (whether that still identifies the
                        // region is not fixed by the property: the reference follows the outcome)
                        let uva = if t.chance(1, 4) { r.uva.wrapping_add((1 + t.draw(8)) * PAGE) } else { r.uva };
                        ops.push(Op::Rem { gpa: r.gpa, size, uva });
                    }
                }
                _ => {
                    // probe addresses at region edges and just outside
                    let pick = |t: &mut Tape, align: u64, room: u64| -> u64 {
                        if known.is_empty() {
                            return 0x1000;
                        }
                        let r = t.pick(&known).clone();
                        let o = match t.draw(6) {
                            0 => 0,
                            1 => r.size - room,
                            2 => r.size, // one past the end
                            3 => r.size / 2,
                            4 => u64::MAX - r.uva - 0x100 + 1, // far outside (wraps to just below the base)
                            _ => t.draw(r.size),
                        };
                        (r.uva.wrapping_add(o)) & !(align - 1)
                    };
                    let desc = pick(t, 16, 16);
                    let avail = pick(t, 2, 2);
                    // the used index is read from guest memory when the address is installed
                    let used = pick(t, 4, 16);
                    ops.push(Op::Probe { desc, avail, used });
                }
            }
        }
        (adapter, ops)
    });
    let desc = format!("adapter={adapter:?} vring={} history={ops:x?}", std::any::type_name::<V>().rsplit("::").next().unwrap_or(""));
    crate::runner::set_desc(&desc);
    let viol = |clause: &str, keys: String, msg: String| -> ! { sim.violation(Violation::new("C13", clause, keys, msg)) };
    let stub = StubMut::<V, ()>::new(
        StubCfg {
            num_queues: 1,
            queues_per_thread: vec![0b1],
            ..Default::default()
        },
        sim,
    );
    let log = stub.log.clone();
    let mem = GuestMemoryAtomic::new(GuestMemoryMmap::<()>::new());
    let gm: GM<()> = mem.clone();
    let mut daemon = AnyDaemon::new(adapter, stub, mem);
    let path = sock_path();
    let mut listener = Listener::new(&path, true).expect("listener");
    let protos = pf::REPLY_ACK | pf::CONFIGURE_MEM_SLOTS | pf::MQ;
    let kick = EventFd::new(libc::EFD_NONBLOCK).expect("eventfd");
    let connect = |daemon: &mut AnyDaemon<V, ()>, listener: &mut Listener| -> Vmm {
        let mut vmm = connect_and_start(sim, daemon, listener, &path, 1).expect("start");
        // PROTOCOL_FEATURES stays un-acknowledged in SET_FEATURES: all rings enabled
        let offered = vmm.fe.get_features().expect("get_features");
        let _ = vmm.fe.get_protocol_features().expect("get_protocol_features");
        vmm.fe
            .set_protocol_features(vhost::vhost_user::message::VhostUserProtocolFeatures::from_bits_retain(protos))
            .expect("set_protocol_features");
        vmm.fe.set_features(offered & !spec::VHOST_USER_F_PROTOCOL_FEATURES).expect("set_features");
        vmm.fe.set_hdr_flags(vhost::vhost_user::message::VhostUserHeaderFlag::NEED_REPLY);
        vmm.fe.set_vring_kick(0, &kick).expect("set_vring_kick");
        vmm
    };
    let mut vmm = connect(&mut daemon, &mut listener);
    let mut model = Model { regs: Vec::new() };
    let mut updates = log.lock().unwrap().update_memory;
    let mut stamp = 1u8;
    for (step, op) in ops.iter().enumerate() {
        let before = model.sorted();
        let (res, expect_ok, name): (Result<(), String>, bool, &str) = match op {
            Op::SetTable(rs) => {
                let infos: Vec<_> = rs.iter().map(|r| pool.info(r)).collect();
                let mut ok = rs.iter().all(|r| pool.mappable(r)) && !rs.iter().enumerate().any(|(i, a)| rs.iter().skip(i + 1).any(|b| overlaps(a, b)));
                let r = vmm.fe.set_mem_table(&infos).map_err(|e| format!("{e:?}"));
                // whether a table whose regions are not in ascending guest-address order is
                // accepted is not fixed by the property: the reference follows the outcome
                let sorted = rs.windows(2).all(|w| w[0].gpa < w[1].gpa);
                if ok && !sorted {
                    ok = r.is_ok();
                    sim.probe("unordered_table");
                }
                if ok {
                    model.regs = rs.clone();
                }
                (r, ok, "SET_MEM_TABLE")
            }
            Op::Add(r) => {
                let ok = pool.mappable(r) && !model.regs.iter().any(|b| overlaps(r, b));
                let res = vmm.fe.add_mem_region(&pool.info(r)).map_err(|e| format!("{e:?}"));
                if ok {
                    model.regs.push(r.clone());
                }
                (res, ok, "ADD_MEM_REG")
            }
            Op::Rem { gpa, size, uva } => {
                let ok = model.regs.iter().any(|r| r.gpa == *gpa && r.size == *size);
                let info = vhost::VhostUserMemoryRegionInfo {
                    guest_phys_addr: *gpa,
                    memory_size: *size,
                    userspace_addr: *uva,
                    mmap_offset: 0,
                    mmap_handle: -1,
                };
                let res = vmm.fe.remove_mem_region(&info).map_err(|e| format!("{e:?}"));
                let other_uva = model.regs.iter().any(|r| r.gpa == *gpa && r.size == *size && r.uva != *uva);
                let ok = if other_uva { res.is_ok() } else { ok };
                if ok {
                    model.regs.retain(|r| r.gpa != *gpa);
                }
                (res, ok, "REM_MEM_REG")
            }
            Op::Probe { desc, avail, used } => {
                let t = (model.translate(*desc), model.translate(*avail), model.translate(*used));
                let ok = matches!(t, (Some(_), Some(_), Some(_))) && !model.regs.is_empty();
                let cd = VringConfigData {
                    queue_max_size: 256,
                    queue_size: 256,
                    flags: 0,
                    desc_table_addr: *desc,
                    used_ring_addr: *used,
                    avail_ring_addr: *avail,
                    log_addr: None,
                };
                let res = vmm.fe.set_vring_addr(0, &cd).map_err(|e| format!("{e:?}"));
                (res, ok, "SET_VRING_ADDR")
            }
            Op::ResetOwner => {
                let res = vmm
                    .fe
                    .reset_owner()
                    .and_then(|_| vmm.fe.set_owner())
                    .and_then(|_| vmm.fe.get_features())
                    .and_then(|f| {
                        vmm.fe.set_protocol_features(vhost::vhost_user::message::VhostUserProtocolFeatures::from_bits_retain(protos))?;
                        vmm.fe.set_features(f & !spec::VHOST_USER_F_PROTOCOL_FEATURES)
                    })
                    .map_err(|e| format!("{e:?}"));
                sim.probe("owner_reset_with_a_table");
                (res, true, "RESET_OWNER")
            }
        };
        if res.is_ok() != expect_ok {
            viol(
                if expect_ok { "valid_update_rejected" } else { "invalid_update_accepted" },
                name.to_string(),
                format!("step {step} {op:x?}: returned {res:?}, reference table says ok={expect_ok} (table before: {before:x?})"),
            );
        }
        sim.settle();
        // ---- (i) table seen by the backend, notification count
        let snap = snapshot_regions(&gm);
        let want = model.sorted();
        if snap != want {
            viol(
                if expect_ok { "table_differs_after_update" } else { "table_changed_by_failed_update" },
                name.to_string(),
                format!("step {step} {op:x?}: backend memory is {snap:x?}, reference table {want:x?}"),
            );
        }
        let now = log.lock().unwrap().update_memory;
        let is_table_op = !matches!(op, Op::Probe { .. } | Op::ResetOwner);
        if is_table_op && expect_ok {
            // what the backend was given at its notification is the new table, not the old one
            let at_cb = log.lock().unwrap().update_memory_table.clone();
            if at_cb != want {
                viol(
                    "table_at_notification_differs",
                    name.to_string(),
                    format!("step {step} {op:x?}: inside update_memory the backend saw {at_cb:x?}, the table after this update is {want:x?}"),
                );
            }
        }
        let want_updates = updates + (is_table_op && expect_ok) as u64;
        if now != want_updates {
            viol("update_memory_count", name.to_string(), format!("step {step} {op:x?}: update_memory called {} times for this step, expected {}", now - updates, want_updates - updates));
        }
        updates = now;
        // ---- (ii) bytes through the file and through guest memory
        for r in &model.regs {
            for o in [0, r.size - 1, r.size / 2] {
                stamp = stamp.wrapping_add(1).max(1);
                pool.write(r, o, &[stamp]);
                match gm_read(&gm, r.gpa + o, 1) {
                    Some(b) if b[0] == stamp => {}
                    other => viol("file_write_not_visible", String::new(), format!("step {step}: byte written to the region file at offset {:#x} reads back as {other:?} at guest address {:#x}", r.off + o, r.gpa + o)),
                }
                stamp = stamp.wrapping_add(1).max(1);
                if !gm_write(&gm, r.gpa + o, &[stamp]) || pool.read(r, o, 1)[0] != stamp {
                    viol("guest_write_not_visible", String::new(), format!("step {step}: byte written at guest address {:#x} is not in the region file at offset {:#x}", r.gpa + o, r.off + o));
                }
            }
            // one past the end must not be backed by this region (unless another region is there)
            let end = r.gpa + r.size;
            let covered = model.regs.iter().any(|x| end >= x.gpa && end < x.gpa + x.size);
            if !covered && gm_read(&gm, end, 1).is_some() {
                viol("memory_beyond_region", String::new(), format!("step {step}: guest address {end:#x} (one past a region) is accessible"));
            }
        }
        // ---- (iv) translation installed in the queue
        if let (Op::Probe { desc, avail, used }, true) = (op, expect_ok) {
            let n0 = log.lock().unwrap().dispatches.len();
            crate::sched::point("guest.before_kick");
            kick.write(1).expect("kick");
            sim.settle();
            let d = log.lock().unwrap().dispatches.get(n0).cloned();
            match d.and_then(|d| d.ring) {
                None => viol("no_dispatch_after_probe", String::new(), format!("step {step}: kick after SET_VRING_ADDR was not dispatched")),
                Some(s) => {
                    let want = (model.translate(*desc).unwrap(), model.translate(*avail).unwrap(), model.translate(*used).unwrap());
                    if (s.desc, s.avail, s.used) != want {
                        viol(
                            "wrong_translation",
                            String::new(),
                            format!("step {step}: queue addresses (desc, avail, used) = ({:#x}, {:#x}, {:#x}), reference translation gives ({:#x}, {:#x}, {:#x})", s.desc, s.avail, s.used, want.0, want.1, want.2),
                        );
                    }
                }
            }
        }
        if res.is_err() {
            // the daemon stops serving after a failed request: re-establish the connection
            drop(vmm);
            let _ = daemon.wait();
            vmm = connect(&mut daemon, &mut listener);
            sim.probe("reconnect_after_failed_update");
        }
    }
    drop(vmm);
    let _ = daemon.wait();
    drop(daemon);
    drop(gm);
    close_leaked_exit_consumers(&log);
    drop(listener);
    RunOut {
        desc,
        nontrivial: ops.len() >= 2,
        sweep_key: None,
    }
}
