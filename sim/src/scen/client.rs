//! Client endpoints under test (real `Frontend`, `Backend` proxy, `GpuBackend`) against a
//! scripted raw peer that reads the request with the spec codec, answers with a correct or a
//! mutated reply and then closes. Serves C06 (scenario 1), C01 (what the clients put on the
//! wire; what they decode from conformant replies) and parts of C08/C09.

use std::fs::File;
use std::os::unix::io::AsRawFd;
use std::sync::{Arc, Mutex};

use vhost::vhost_user::gpu_message::*;
use vhost::vhost_user::message::{VhostUserHeaderFlag, VhostUserU64};
use vhost::vhost_user::{Backend, Frontend, GpuBackend};
use vm_memory::ByteValued;

use super::fe::{gen_api_req, MAXQ};
use super::server::{self, gate_bits};
use super::*;
use crate::fdu;
use crate::rec::{be_call, fe_call, FeOk, Lent};
use crate::rng::Tape;
use crate::sched::{self, Sim, Violation};
use crate::spec::{self, pf, BReq, FReq, GReq, Hdr, Inflight, ReplyRule};

#[derive(Clone, Debug)]
pub enum Target {
    Fe(FReq),
    Proxy(BReq),
    Gpu(GReq),
}

impl Target {
    pub fn name(&self) -> &'static str {
        match self {
            Target::Fe(r) => r.name(),
            Target::Proxy(r) => r.name(),
            Target::Gpu(r) => r.name(),
        }
    }
    pub fn code(&self) -> u32 {
        match self {
            Target::Fe(r) => r.code(),
            Target::Proxy(r) => r.code(),
            Target::Gpu(r) => r.code(),
        }
    }
    fn is_gpu(&self) -> bool {
        matches!(self, Target::Gpu(_))
    }
}

pub const N_GPU: u64 = 12;

pub fn gen_greq(t: &mut Tape, typ: u64) -> GReq {
    let f10 = |t: &mut Tape| {
        let mut f = [0u32; 10];
        for x in &mut f {
            *x = t.lattice32();
        }
        f
    };
    match typ {
        0 => GReq::GetProtocolFeatures,
        1 => GReq::SetProtocolFeatures(t.lattice64()),
        2 => GReq::GetDisplayInfo,
        3 => GReq::CursorPos {
            scanout_id: t.lattice32(),
            x: t.lattice32(),
            y: t.lattice32(),
        },
        4 => GReq::CursorPosHide {
            scanout_id: t.lattice32(),
            x: t.lattice32(),
            y: t.lattice32(),
        },
        5 => GReq::CursorUpdate {
            scanout_id: t.lattice32(),
            x: t.lattice32(),
            y: t.lattice32(),
            hot_x: t.lattice32(),
            hot_y: t.lattice32(),
            data: t.bytes(4 * 64 * 64),
        },
        6 => GReq::Scanout {
            scanout_id: t.lattice32(),
            width: t.lattice32(),
            height: t.lattice32(),
        },
        7 => {
            let n = match t.draw(5) {
                0 => 0,
                1 => 1,
                2 => 4096,
                3 => 70_000,
                _ => t.draw(20_000) as usize,
            };
            GReq::Update {
                scanout_id: t.lattice32(),
                x: t.lattice32(),
                y: t.lattice32(),
                width: t.lattice32(),
                height: t.lattice32(),
                data: t.bytes(n),
            }
        }
        8 => GReq::DmabufScanout {
            f: f10(t),
            with_fd: t.chance(2, 3),
        },
        9 => GReq::DmabufUpdate {
            scanout_id: t.lattice32(),
            x: t.lattice32(),
            y: t.lattice32(),
            width: t.lattice32(),
            height: t.lattice32(),
        },
        10 => GReq::GetEdid { scanout_id: t.lattice32() },
        _ => GReq::DmabufScanout2 {
            f: f10(t),
            modifier: t.lattice64(),
            with_fd: t.chance(2, 3),
        },
    }
}

/// What the peer sends back.
#[derive(Clone, Debug)]
pub struct Reply {
    pub bytes: Vec<u8>,
    pub fds_first: usize,
    pub fds_second: usize,
    pub cuts: Vec<usize>,
    pub mutation: &'static str,
}

pub struct Case {
    pub target: Target,
    /// frontend: NEED_REPLY header flag on the target call
    pub need_reply: bool,
    /// frontend: REPLY_ACK acknowledged in the prefix
    pub reply_ack: bool,
    pub reply: Option<Reply>,
    /// close right after reading the request, without answering
    pub answerless_close: bool,
}

fn awaits(c: &Case) -> bool {
    match &c.target {
        // the frontend applies the acknowledged set before it decides whether to wait
        Target::Fe(FReq::SetProtocolFeatures(x)) => c.need_reply && x & pf::REPLY_ACK != 0,
        Target::Fe(r) => match r.reply_rule() {
            ReplyRule::Reply => true,
            ReplyRule::Ack => c.need_reply && c.reply_ack,
        },
        Target::Proxy(_) => c.reply_ack,
        Target::Gpu(g) => g.reply_size().is_some(),
    }
}

/// The specification's reply to `target`, with scripted values.
pub fn correct_reply(t: &mut Tape, target: &Target) -> (Vec<u8>, usize) {
    let mut body = Vec::new();
    let mut nfds = 0;
    match target {
        Target::Fe(r) => match r {
            FReq::GetFeatures | FReq::GetProtocolFeatures | FReq::GetMaxMemSlots => spec::p64(&mut body, t.lattice64()),
            FReq::GetQueueNum => spec::p64(&mut body, t.draw(0x8001)),
            FReq::GetVringBase { idx } => {
                spec::p32(&mut body, *idx);
                spec::p32(&mut body, t.lattice32());
            }
            FReq::GetConfig { off, size, flags, .. } => {
                spec::p32(&mut body, *off);
                spec::p32(&mut body, *size);
                spec::p32(&mut body, *flags);
                body.extend_from_slice(&t.bytes(*size as usize));
            }
            FReq::GetInflightFd(_) => {
                body = Inflight {
                    mmap_size: t.lattice64(),
                    mmap_offset: t.lattice64(),
                    num_queues: (t.lattice32() as u16).max(1),
                    queue_size: (t.lattice32() as u16).max(1),
                }
                .bytes();
                nfds = 1;
            }
            FReq::GetSharedObject(_) => nfds = 1,
            FReq::SetDeviceStateFd { .. } => {
                if t.chance(1, 2) {
                    spec::p64(&mut body, 0);
                    nfds = 1;
                } else {
                    spec::p64(&mut body, 0x100);
                }
            }
            FReq::CheckDeviceState => spec::p64(&mut body, 0),
            FReq::GetShmemConfig => {
                spec::p32(&mut body, t.draw(257) as u32);
                spec::p32(&mut body, 0);
                let s = t.raw();
                for i in 0..256u64 {
                    spec::p64(&mut body, s.wrapping_mul(i + 3));
                }
            }
            FReq::SetLogBase { size, off } => {
                spec::p64(&mut body, *size);
                spec::p64(&mut body, *off);
            }
            // acknowledgement
            _ => spec::p64(&mut body, 0),
        },
        Target::Proxy(_) => spec::p64(&mut body, 0),
        Target::Gpu(g) => {
            let n = g.reply_size().unwrap_or(0);
            body = t.bytes(n);
        }
    }
    let flags = if target.is_gpu() { spec::gr::F_REPLY } else { spec::VERSION | spec::F_REPLY };
    (spec::message(target.code(), flags, &body), nfds)
}

pub fn mutate(t: &mut Tape, target: &Target, good: &[u8], nfds: usize) -> Reply {
    let mut b = good.to_vec();
    let mut r = Reply {
        bytes: Vec::new(),
        fds_first: nfds,
        fds_second: 0,
        cuts: vec![],
        mutation: "none",
    };
    let kind = t.draw(13);
    match kind {
        0 | 1 => {}
        2 => {
            r.mutation = "code";
            let c = match t.draw(4) {
                0 => 0,
                1 => spec::g32(&b, 0).wrapping_add(1),
                2 => 1 + t.draw(44) as u32,
                _ => t.lattice32(),
            };
            b[0..4].copy_from_slice(&c.to_le_bytes());
        }
        3 => {
            r.mutation = "flags";
            let f = spec::g32(&b, 4);
            let nf = match t.draw(6) {
                0 => f & !spec::F_REPLY,
                1 => f | spec::F_NEED_REPLY,
                2 => f & !3,
                3 => (f & !3) | 2,
                4 => f | (1 << (4 + t.draw(28))),
                _ => f ^ (1 << t.draw(32)),
            };
            b[4..8].copy_from_slice(&nf.to_le_bytes());
        }
        4 => {
            r.mutation = "size";
            let s = spec::g32(&b, 8);
            let ns = match t.draw(5) {
                0 => s.wrapping_add(1),
                1 => s.wrapping_sub(1),
                2 => 0,
                3 => 0x1001,
                _ => t.lattice32(),
            };
            b[8..12].copy_from_slice(&ns.to_le_bytes());
        }
        5 => {
            r.mutation = "body";
            if b.len() > spec::HDR {
                match t.draw(3) {
                    0 => {
                        let i = spec::HDR + t.draw((b.len() - spec::HDR) as u64) as usize;
                        b[i] ^= 1 << t.draw(8);
                    }
                    1 => {
                        for x in &mut b[spec::HDR..] {
                            *x = 0;
                        }
                    }
                    _ => {
                        for x in &mut b[spec::HDR..] {
                            *x = 0xff;
                        }
                    }
                }
            }
        }
        6 => {
            r.mutation = "truncate";
            let n = t.draw(b.len() as u64) as usize;
            b.truncate(n);
        }
        7 => {
            r.mutation = "extend";
            let extra = t.range(1, 40) as usize;
            b.extend_from_slice(&t.bytes(extra));
        }
        8 => {
            r.mutation = "fd_count";
            r.fds_first = t.draw(4) as usize;
        }
        9 => {
            r.mutation = "fds_on_later_segment";
            r.fds_second = r.fds_first.max(1);
            r.fds_first = 0;
        }
        12 => {
            // a longer message that is consistent in itself: the header announces, and the
            // stream carries, k more bytes than a reply to this request has
            r.mutation = "grow";
            if b.len() >= spec::HDR {
                let k = t.range(1, 24) as usize;
                let s = spec::g32(&b, 8).wrapping_add(k as u32);
                b[8..12].copy_from_slice(&s.to_le_bytes());
                b.extend_from_slice(&t.bytes(k));
            }
        }
        10 => {
            r.mutation = "random";
            let n = t.draw(64) as usize;
            b = t.bytes(n);
            let _ = target;
        }
        _ => {
            r.mutation = "status";
            if b.len() >= spec::HDR + 8 {
                let v = t.lattice64().max(1);
                b[spec::HDR..spec::HDR + 8].copy_from_slice(&v.to_le_bytes());
            }
        }
    }
    if b.len() >= 2 {
        let mode = if r.fds_second > 0 { 1 } else { t.draw(6) };
        r.cuts = server::gen_cuts(t, b.len(), mode);
    }
    r.bytes = b;
    r
}

/// Minimum conditions under which the property lets the client accept `bytes` as the answer.
/// Returns the decoded value description on acceptance.
pub fn acceptable(target: &Target, bytes: &[u8], fds_first: usize) -> Option<Vec<u8>> {
    if bytes.len() < spec::HDR {
        return None;
    }
    let h: Hdr = spec::parse_hdr(bytes);
    if h.code != target.code() || h.flags & spec::F_REPLY == 0 {
        return None;
    }
    // "form a reply": a header of another protocol version or with reserved flag bits set is not
    // a vhost-user message at all (the header rule of C20, whose consequence at the receivers
    // this property is). The GPU channel's header has its own, laxer flag word.
    if !matches!(target, Target::Gpu(_)) && (h.flags & 0x3 != spec::VERSION || h.flags & !0xf != 0) {
        return None;
    }
    // The property's conditions are: REPLY flag, same request code, valid body, descriptors
    // exactly when defined. Whether the header's size field must equal the body length is not
    // among them (don't-care): the body is the bytes that follow the header.
    let rest = &bytes[spec::HDR..];
    let have = rest.len();
    let fixed = |n: usize, nf: usize| if have >= n && fds_first == nf { Some(rest[..n].to_vec()) } else { None };
    match target {
        Target::Fe(r) => match r {
            FReq::GetFeatures | FReq::GetProtocolFeatures | FReq::GetMaxMemSlots => fixed(8, 0),
            FReq::GetQueueNum => fixed(8, 0).filter(|b| spec::g64(b, 0) <= 0x8000),
            FReq::GetVringBase { .. } => fixed(8, 0),
            FReq::GetConfig { off, size, flags: _, .. } => {
                let n = 12 + *size as usize;
                // a reply with a payload is delimited by its header: the payload the header
                // announces has to be the payload the configuration struct describes, or the
                // surplus is left in the stream and parsed as the next message
                if have >= n
                    && h.size as usize == n
                    && fds_first == 0
                    && spec::g32(rest, 0) == *off
                    && spec::g32(rest, 4) == *size
                    && spec::g32(rest, 8) & !3 == 0
                {
                    Some(rest[..n].to_vec())
                } else {
                    None
                }
            }
            FReq::GetInflightFd(_) => fixed(24, 1).filter(|b| spec::g16(b, 16) != 0 && spec::g16(b, 18) != 0),
            FReq::GetSharedObject(_) => fixed(0, 1),
            FReq::SetDeviceStateFd { .. } => {
                if have < 8 {
                    return None;
                }
                let v = spec::g64(rest, 0);
                if (v == 0x100 && fds_first == 0) || (v == 0 && fds_first == 1) {
                    Some(rest[..8].to_vec())
                } else {
                    None
                }
            }
            FReq::CheckDeviceState => fixed(8, 0).filter(|b| spec::g64(b, 0) == 0),
            FReq::GetShmemConfig => fixed(8 + 256 * 8, 0),
            // body of the SET_LOG_BASE reply is not specified: any reply without descriptors
            FReq::SetLogBase { .. } => {
                if fds_first == 0 {
                    Some(vec![])
                } else {
                    None
                }
            }
            _ => fixed(8, 0).filter(|b| spec::g64(b, 0) == 0),
        },
        Target::Proxy(_) => fixed(8, 0).filter(|b| spec::g64(b, 0) == 0),
        Target::Gpu(g) => fixed(g.reply_size()?, 0),
    }
}

// ------------------------------------------------------------------------------------------

pub enum GpuOk {
    Unit,
    Bytes(Vec<u8>),
}

pub fn gpu_call(g: &GpuBackend, req: &GReq, fd: Option<&File>) -> std::io::Result<GpuOk> {
    let mk = |f: &[u32; 10]| VhostUserGpuDMABUFScanout {
        scanout_id: f[0],
        x: f[1],
        y: f[2],
        width: f[3],
        height: f[4],
        fd_width: f[5],
        fd_height: f[6],
        fd_stride: f[7],
        fd_flags: f[8],
        fd_drm_fourcc: f[9],
    };
    Ok(match req {
        GReq::GetProtocolFeatures => GpuOk::Bytes(g.get_protocol_features()?.value.to_le_bytes().to_vec()),
        GReq::SetProtocolFeatures(x) => {
            g.set_protocol_features(&VhostUserU64::new(*x))?;
            GpuOk::Unit
        }
        GReq::GetDisplayInfo => GpuOk::Bytes(g.get_display_info()?.as_slice().to_vec()),
        GReq::GetEdid { scanout_id } => GpuOk::Bytes(
            g.get_edid(&VhostUserGpuEdidRequest {
                scanout_id: *scanout_id,
            })?
            .as_slice()
            .to_vec(),
        ),
        GReq::Scanout { scanout_id, width, height } => {
            g.set_scanout(&VhostUserGpuScanout {
                scanout_id: *scanout_id,
                width: *width,
                height: *height,
            })?;
            GpuOk::Unit
        }
        GReq::Update { scanout_id, x, y, width, height, data } => {
            g.update_scanout(
                &VhostUserGpuUpdate {
                    scanout_id: *scanout_id,
                    x: *x,
                    y: *y,
                    width: *width,
                    height: *height,
                },
                data,
            )?;
            GpuOk::Unit
        }
        GReq::DmabufUpdate { scanout_id, x, y, width, height } => {
            g.update_dmabuf_scanout(&VhostUserGpuUpdate {
                scanout_id: *scanout_id,
                x: *x,
                y: *y,
                width: *width,
                height: *height,
            })?;
            GpuOk::Unit
        }
        GReq::DmabufScanout { f, with_fd } => {
            g.set_dmabuf_scanout(&mk(f), if *with_fd { fd } else { None })?;
            GpuOk::Unit
        }
        GReq::DmabufScanout2 { f, modifier, with_fd } => {
            g.set_dmabuf_scanout2(
                &VhostUserGpuDMABUFScanout2 {
                    dmabuf_scanout: mk(f),
                    modifier: *modifier,
                },
                if *with_fd { fd } else { None },
            )?;
            GpuOk::Unit
        }
        GReq::CursorPos { scanout_id, x, y } => {
            g.cursor_pos(&VhostUserGpuCursorPos {
                scanout_id: *scanout_id,
                x: *x,
                y: *y,
            })?;
            GpuOk::Unit
        }
        GReq::CursorPosHide { scanout_id, x, y } => {
            g.cursor_pos_hide(&VhostUserGpuCursorPos {
                scanout_id: *scanout_id,
                x: *x,
                y: *y,
            })?;
            GpuOk::Unit
        }
        GReq::CursorUpdate { scanout_id, x, y, hot_x, hot_y, data } => {
            let arr: &[u8; 4 * 64 * 64] = data.as_slice().try_into().expect("cursor data size");
            g.cursor_update(
                &VhostUserGpuCursorUpdate {
                    pos: VhostUserGpuCursorPos {
                        scanout_id: *scanout_id,
                        x: *x,
                        y: *y,
                    },
                    hot_x: *hot_x,
                    hot_y: *hot_y,
                },
                arr,
            )?;
            GpuOk::Unit
        }
    })
}

/// What the peer observed of the target request.
#[derive(Default)]
pub struct Seen {
    pub hdr: Option<Hdr>,
    pub body: Vec<u8>,
    pub nfds_first: usize,
    pub late_fds: usize,
    pub prefix_msgs: usize,
    pub err: Option<String>,
}

pub enum Outcome {
    Ok(Vec<u8>, usize),
    Err(String),
}

pub struct CaseResult {
    pub outcome: Outcome,
    pub seen: Seen,
    pub lent_fds: usize,
}

fn peer_read_msg(fd: i32) -> Result<Option<(Hdr, Vec<u8>, usize, usize)>, String> {
    let (h, hf) = fdu::raw_recv_exact(fd, spec::HDR, "peer.recv").map_err(|e| format!("errno {e}"))?;
    if h.is_empty() {
        return Ok(None);
    }
    if h.len() < spec::HDR {
        return Err("partial header".into());
    }
    let hdr = spec::parse_hdr(&h);
    let (b, bf) = fdu::raw_recv_exact(fd, hdr.size as usize, "peer.recv").map_err(|e| format!("errno {e}"))?;
    if b.len() < hdr.size as usize {
        return Err(format!("partial body {} of {}", b.len(), hdr.size));
    }
    let first = hf.iter().filter(|(o, _)| *o == 0).count();
    let late = hf.len() - first + bf.len();
    Ok(Some((hdr, b, first, late)))
}

fn peer_send_reply(fd: i32, r: &Reply, pool: &[File]) {
    let f1: Vec<i32> = pool.iter().take(r.fds_first).map(|f| f.as_raw_fd()).collect();
    let f2: Vec<i32> = pool.iter().take(r.fds_second).map(|f| f.as_raw_fd()).collect();
    if r.bytes.is_empty() {
        return;
    }
    if r.fds_second > 0 && r.bytes.len() >= 2 {
        let c = r.cuts.first().copied().unwrap_or(1).clamp(1, r.bytes.len() - 1);
        let _ = fdu::raw_send_segmented(fd, &r.bytes[..c], &[], &[], 0);
        let _ = fdu::raw_send_segmented(fd, &r.bytes[c..], &[], &f2, 0);
    } else {
        let _ = fdu::raw_send_segmented(fd, &r.bytes, &r.cuts, &f1, 0);
    }
}

/// Answers of the peer to the negotiation prefix of a frontend case.
fn prefix_for(req: &FReq, reply_ack: bool) -> (u64, u64) {
    let (mut p, _) = gate_bits(req);
    if matches!(req, FReq::SetDeviceStateFd { .. } | FReq::CheckDeviceState) {
        p |= pf::DEVICE_STATE;
    }
    if reply_ack {
        p |= pf::REPLY_ACK;
    }
    (spec::VHOST_USER_F_PROTOCOL_FEATURES, p)
}

pub fn run_case(sim: &Sim, case: &Case) -> CaseResult {
    run_case_opts(sim, case, false)
}

/// `tiny_nonblocking`: the client's socket is non-blocking with the kernel's minimal send
/// buffer, so that large messages are written in kernel-made pieces with EAGAIN in between.
pub fn run_case_opts(sim: &Sim, case: &Case, tiny_nonblocking: bool) -> CaseResult {
    let (cl_sock, peer_sock) = fdu::sockpair();
    if tiny_nonblocking {
        cl_sock.set_nonblocking(true).expect("nonblocking");
        let v: libc::c_int = 1;
        // SAFETY: valid socket and option buffer; the kernel clamps to its minimum.
        unsafe {
            libc::setsockopt(cl_sock.as_raw_fd(), libc::SOL_SOCKET, libc::SO_SNDBUF, &v as *const _ as *const libc::c_void, 4);
        }
    }
    sim.label_fd(cl_sock.as_raw_fd(), "client");
    sim.label_fd(peer_sock.as_raw_fd(), "peer");
    let seen = Arc::new(Mutex::new(Seen::default()));
    let s2 = seen.clone();
    let target = case.target.clone();
    let reply = case.reply.clone();
    let answerless = case.answerless_close;
    let expect_answer = awaits(case);
    let n_prefix = match &case.target {
        Target::Fe(_) => 4,
        _ => 0,
    };
    let (offered, protos) = match &case.target {
        Target::Fe(r) => prefix_for(r, case.reply_ack),
        _ => (0, 0),
    };
    let pool: Vec<File> = (0..4).map(|i| fdu::memfd(&format!("peerfd{i}"), 4096)).collect();
    let peer = sim.spawn("peer", "peer", move || {
        let sock = peer_sock;
        let fd = sock.as_raw_fd();
        let mut s = Seen::default();
        // negotiation prefix of the frontend: GET_FEATURES, SET_FEATURES, GET_PROTOCOL_FEATURES,
        // SET_PROTOCOL_FEATURES (no NEED_REPLY yet)
        for i in 0..n_prefix {
            match peer_read_msg(fd) {
                Ok(Some((h, _b, _, _))) => {
                    s.prefix_msgs += 1;
                    let val = match h.code {
                        spec::fr::GET_FEATURES => Some(offered),
                        spec::fr::GET_PROTOCOL_FEATURES => Some(protos),
                        _ => None,
                    };
                    if let Some(v) = val {
                        let m = spec::message(h.code, spec::VERSION | spec::F_REPLY, &v.to_le_bytes());
                        let _ = fdu::raw_send_segmented(fd, &m, &[], &[], 0);
                    }
                }
                other => {
                    s.err = Some(format!("prefix message {i}: {:?}", other.err()));
                    *s2.lock().unwrap() = s;
                    return;
                }
            }
        }
        match peer_read_msg(fd) {
            Ok(Some((h, b, first, late))) => {
                s.hdr = Some(h);
                s.body = b;
                s.nfds_first = first;
                s.late_fds = late;
            }
            Ok(None) => s.err = Some("client closed before sending the target request (refused locally?)".into()),
            Err(e) => s.err = Some(e),
        }
        if s.hdr.is_some() && expect_answer && !answerless {
            if let Some(r) = &reply {
                peer_send_reply(fd, r, &pool);
            }
        }
        let _ = target;
        sched::point("peer.close");
        *s2.lock().unwrap() = s;
        drop(sock);
        drop(pool);
    });
    let out = Arc::new(Mutex::new(None));
    let o2 = out.clone();
    let tgt = case.target.clone();
    let need_reply = case.need_reply;
    let lent_count = Arc::new(Mutex::new(0usize));
    let lc = lent_count.clone();
    let client = sim.spawn("client", "client", move || {
        let res = match &tgt {
            Target::Fe(req) => {
                let mut fe = Frontend::from_stream(cl_sock, MAXQ);
                let run = |fe: &mut Frontend| -> Result<Outcome, String> {
                    use vhost::vhost_user::VhostUserFrontend;
                    use vhost::VhostBackend;
                    let f = fe.get_features().map_err(|e| format!("prefix get_features: {e:?}"))?;
                    fe.set_features(f).map_err(|e| format!("prefix set_features: {e:?}"))?;
                    let p = fe.get_protocol_features().map_err(|e| format!("prefix get_protocol_features: {e:?}"))?;
                    fe.set_protocol_features(p).map_err(|e| format!("prefix set_protocol_features: {e:?}"))?;
                    if need_reply {
                        fe.set_hdr_flags(VhostUserHeaderFlag::NEED_REPLY);
                    }
                    let lent = Lent::for_req(req);
                    *lc.lock().unwrap() = lent.wire_fds(req).len();
                    let r = fe_call(fe, req, &lent).ok_or_else(|| "no API method".to_string())?;
                    Ok(match r {
                        Ok(v) => {
                            let (bytes, nf) = encode_feok(req, &v);
                            Outcome::Ok(bytes, nf)
                        }
                        Err(e) => Outcome::Err(format!("{e:?}")),
                    })
                };
                let r = run(&mut fe);
                drop(fe);
                r
            }
            Target::Proxy(req) => {
                let be = Backend::from_stream(cl_sock);
                be.set_reply_ack_flag(true);
                be.set_shared_object_flag(true);
                be.set_shmem_flag(true);
                let f = if req.nfds() > 0 { Some(fdu::memfd("plent", 4096)) } else { None };
                *lc.lock().unwrap() = req.nfds();
                let r = be_call(&be, req, f.as_ref());
                drop(be);
                Ok(match r {
                    Ok(v) => Outcome::Ok(v.to_le_bytes().to_vec(), 0),
                    Err(e) => Outcome::Err(format!("{e:?}")),
                })
            }
            Target::Gpu(req) => {
                let g = GpuBackend::from_stream(cl_sock);
                let f = if req.nfds() > 0 { Some(fdu::memfd("glent", 4096)) } else { None };
                *lc.lock().unwrap() = req.nfds();
                let r = gpu_call(&g, req, f.as_ref());
                drop(g);
                Ok(match r {
                    Ok(GpuOk::Unit) => Outcome::Ok(vec![], 0),
                    Ok(GpuOk::Bytes(b)) => Outcome::Ok(b, 0),
                    Err(e) => Outcome::Err(format!("{e:?}")),
                })
            }
        };
        *o2.lock().unwrap() = Some(res);
    });
    sim.join(client);
    sim.join(peer);
    let outcome = match out.lock().unwrap().take() {
        Some(Ok(o)) => o,
        Some(Err(e)) => Outcome::Err(format!("HARNESS {e}")),
        None => Outcome::Err("HARNESS no outcome".into()),
    };
    let seen = std::mem::take(&mut *seen.lock().unwrap());
    let lent_fds = *lent_count.lock().unwrap();
    CaseResult {
        outcome,
        seen,
        lent_fds,
    }
}

/// Re-encode the value the frontend API returned in the reply's wire layout, for comparison.
fn encode_feok(req: &FReq, v: &FeOk) -> (Vec<u8>, usize) {
    let mut b = Vec::new();
    let mut nf = 0;
    match v {
        FeOk::Unit => {}
        FeOk::U64(x) => match req {
            FReq::GetVringBase { idx } => {
                spec::p32(&mut b, *idx);
                spec::p32(&mut b, *x as u32);
            }
            _ => spec::p64(&mut b, *x),
        },
        FeOk::Config(o, s, f, p) => {
            spec::p32(&mut b, *o);
            spec::p32(&mut b, *s);
            spec::p32(&mut b, *f);
            b.extend_from_slice(p);
        }
        FeOk::File(_) => nf = 1,
        FeOk::Inflight(i, _) => {
            b = i.bytes();
            nf = 1;
        }
        FeOk::OptFile(f) => {
            nf = f.is_some() as usize;
            spec::p64(&mut b, if f.is_some() { 0 } else { 0x100 });
        }
        FeOk::Shmem(n, sizes) => {
            spec::p32(&mut b, *n);
            spec::p32(&mut b, 0);
            for s in sizes {
                spec::p64(&mut b, *s);
            }
        }
    }
    (b, nf)
}

pub fn judge_case(prop: &str, case: &Case, res: &CaseResult, check_wire: bool) -> Result<(), Violation> {
    let name = case.target.name();
    let v = |clause: &str, msg: String| Err(Violation::new(prop, clause, name, format!("{name}: {msg}")));
    if let Outcome::Err(e) = &res.outcome {
        if e.starts_with("HARNESS") {
            return Err(Violation::new(prop, "harness", name, e.clone()));
        }
    }
    // ---- what the client put on the wire (C01 direction 1)
    if check_wire {
        let (code, body, nfds, want_flags) = match &case.target {
            Target::Fe(r) => (
                r.code(),
                r.body(),
                res.lent_fds,
                spec::VERSION | if case.need_reply { spec::F_NEED_REPLY } else { 0 },
            ),
            Target::Proxy(r) => (r.code(), r.body(), r.nfds(), spec::VERSION | spec::F_NEED_REPLY),
            Target::Gpu(r) => (r.code(), r.body(), r.nfds(), 0),
        };
        match &res.seen.hdr {
            None => return v("request_not_sent", format!("peer saw no target request: {:?}", res.seen.err)),
            Some(h) => {
                if h.code != code {
                    return v("wire_code", format!("request code {} on the wire, specification says {code}", h.code));
                }
                if h.flags != want_flags {
                    return v("wire_flags", format!("header flags {:#x}, expected {want_flags:#x}", h.flags));
                }
                let same = match &case.target {
                    // 4 bytes of struct tail padding: content not specified (don't-care)
                    Target::Fe(FReq::GetInflightFd(_)) | Target::Fe(FReq::SetInflightFd(_)) => {
                        res.seen.body.len() == 24 && res.seen.body[..20] == body[..20]
                    }
                    _ => res.seen.body == body,
                };
                if h.size as usize != body.len() || !same {
                    let n = res.seen.body.len().min(64);
                    return v(
                        "wire_body",
                        format!("payload ({} bytes) {:02x?} differs from the specification encoding ({} bytes) {:02x?}", res.seen.body.len(), &res.seen.body[..n], body.len(), &body[..body.len().min(64)]),
                    );
                }
                if res.seen.nfds_first != nfds {
                    return v("wire_fds", format!("{} descriptors on the first byte, expected {nfds}", res.seen.nfds_first));
                }
                if res.seen.late_fds != 0 {
                    return v("fds_not_on_first_byte", format!("{} descriptors arrived after the first byte", res.seen.late_fds));
                }
            }
        }
    }
    if res.seen.hdr.is_none() {
        return Ok(());
    }
    // ---- how the client treated the answer
    if !awaits(case) {
        return match &res.outcome {
            Outcome::Ok(..) => Ok(()),
            Outcome::Err(e) => v("error_without_reply", format!("no reply or ack is defined/negotiated, yet the call returned {e}")),
        };
    }
    let (bytes, f1, mutation) = match (&case.reply, case.answerless_close) {
        (Some(r), false) => (r.bytes.clone(), r.fds_first, r.mutation),
        _ => (vec![], 0, "close_without_answer"),
    };
    // Descriptors attached to a later byte are delivered together with the first byte when the
    // kernel glues the two segments into one read, so both counts are possible observations.
    let f_all = f1 + case.reply.as_ref().map(|r| r.fds_second).unwrap_or(0);
    let mut f1 = f1;
    let mut acc = acceptable(&case.target, &bytes, f1);
    if acc.is_none() && f_all != f1 && !case.answerless_close {
        acc = acceptable(&case.target, &bytes, f_all);
        if acc.is_some() {
            f1 = f_all;
        }
    }
    match &res.outcome {
        Outcome::Ok(val, nf) => match &acc {
            None => v(
                "fabricated_success",
                format!("mutation `{mutation}`: answer bytes {:02x?} (+{f1} fds) are not a reply to this request, yet the call returned Ok", &bytes[..bytes.len().min(40)]),
            ),
            Some(want) => {
                let cmp_ok = match &case.target {
                    Target::Fe(FReq::GetProtocolFeatures) => {
                        val.len() == 8 && want.len() == 8 && spec::g64(val, 0) & 0x3f_ffff == spec::g64(want, 0) & 0x3f_ffff
                    }
                    Target::Fe(FReq::GetInflightFd(_)) => val.len() == 24 && want.len() == 24 && val[..20] == want[..20],
                    // the API returns only the `num` field of the reply
                    Target::Fe(FReq::GetVringBase { .. }) => val.len() == 8 && want.len() == 8 && val[4..] == want[4..],
                    // bytes 4..8 are padding the API does not expose
                    Target::Fe(FReq::GetShmemConfig) => val.len() == want.len() && val[..4] == want[..4] && val[8..] == want[8..],
                    Target::Fe(FReq::SetLogBase { .. }) | Target::Fe(FReq::CheckDeviceState) => true,
                    Target::Fe(r) if r.reply_rule() == ReplyRule::Ack => true,
                    Target::Proxy(_) => true,
                    Target::Gpu(g) if g.reply_size() == Some(0) => true,
                    _ => val == want,
                };
                if !cmp_ok {
                    return v("wrong_value", format!("returned value {:02x?} differs from the reply's fields {:02x?}", &val[..val.len().min(32)], &want[..want.len().min(32)]));
                }
                let want_nf = match &case.target {
                    Target::Fe(FReq::GetInflightFd(_)) | Target::Fe(FReq::GetSharedObject(_)) => 1,
                    Target::Fe(FReq::SetDeviceStateFd { .. }) => f1,
                    _ => 0,
                };
                if *nf != want_nf {
                    return v("wrong_files", format!("returned {nf} files, reply carried {want_nf}"));
                }
                Ok(())
            }
        },
        Outcome::Err(e) => {
            if mutation == "none" && acc.is_some() {
                return v("correct_reply_rejected", format!("a specification-conformant reply was rejected: {e}"));
            }
            Ok(())
        }
    }
}

pub fn gen_case(t: &mut Tape, kind: u64, typ: u64) -> Case {
    // kind 0: frontend, 1: proxy, 2: gpu
    let target = match kind {
        0 => Target::Fe(gen_api_req(t, typ % server::N_FREQ_TYPES)),
        1 => Target::Proxy(super::breq::gen_breq(t, typ % super::breq::N_BREQ)),
        _ => Target::Gpu(gen_greq(t, typ % N_GPU)),
    };
    let reply_ack = t.chance(3, 4);
    let need_reply = t.chance(3, 4);
    let mut case = Case {
        target,
        need_reply,
        reply_ack: if kind == 1 { true } else { reply_ack },
        reply: None,
        answerless_close: t.chance(1, 12),
    };
    let (good, nf) = correct_reply(t, &case.target);
    case.reply = Some(mutate(t, &case.target, &good, nf));
    case
}

pub fn describe(c: &Case) -> String {
    format!(
        "client {:?} NEED_REPLY={} REPLY_ACK={} answer: {}",
        match &c.target {
            Target::Fe(r) => format!("Frontend::{}", r.name()),
            Target::Proxy(r) => format!("Backend::{}", r.name()),
            Target::Gpu(r) => format!("GpuBackend::{}", r.name()),
        },
        c.need_reply,
        c.reply_ack,
        match (&c.reply, c.answerless_close) {
            (_, true) => "peer closes without answering".to_string(),
            (Some(r), _) => format!("mutation `{}` {} bytes, fds {}+{}, {} cuts", r.mutation, r.bytes.len(), r.fds_first, r.fds_second, r.cuts.len()),
            _ => "-".into(),
        }
    )
}

pub const N_CLIENT_TYPES: u64 = server::N_FREQ_TYPES + super::breq::N_BREQ + N_GPU;

pub fn kind_typ(i: u64) -> (u64, u64) {
    let i = i % N_CLIENT_TYPES;
    if i < server::N_FREQ_TYPES {
        (0, i)
    } else if i < server::N_FREQ_TYPES + super::breq::N_BREQ {
        (1, i - server::N_FREQ_TYPES)
    } else {
        (2, i - server::N_FREQ_TYPES - super::breq::N_BREQ)
    }
}
