#!/usr/bin/env python3
"""Generates /verif/MANIFEST.json from the table below (kept in one place so that the
manifest, the claimed set and the not-applicable list cannot drift apart)."""
import json, subprocess

BASELINE_CMD = "cd /repo && cargo nextest run --workspace --no-fail-fast --tool-config-file pb:/w/lib/nextest.toml --profile pb --test-threads 8 --offline || (cd /repo && cargo test --workspace --no-fail-fast --offline)"

TECH = "deterministic simulation with fault injection (seeded token-passing scheduler over real threads, simulator-controlled socket I/O faults, independent spec-codec peer, reference-model oracles, tape replay + delta-debug minimisation)"
TRUST = "vsim scheduler and hook module; vsim::spec (independent transcription of the vhost-user spec); reference models; Linux socket/eventfd/epoll semantics; sequential consistency at sync points; seeded sampling is evidence, not proof"

# id -> (level category, level text, design ref)
CLAIMED = {
 "C01": ("exploration", "Seeded sampling with a deterministic sweep of every message type of all four channels: bytes written by the real endpoints are decoded by an independent spec codec on a wiretap and compared with the issued call; spec-encoded messages from a raw peer must be decoded by the crate to the encoded values; descriptor placement checked by the peer's recvmsg. Weakest fit for the technique (the quantifier has no schedule or fault in it); the simulator contributes the independent peer and segmentation, not a schedule search.", "DESIGN.md 4 C01"),
 "C02": ("exploration", "Seeded frontend-API sessions against the real backend server with a recording handler (direct and Mutex adapter): exactly-once delivery, argument and open-file identity, handler-before-return ordering by global event sequence numbers, nothing on the wiretap for locally rejected calls; with and without short I/O.", "DESIGN.md 4 C02"),
 "C03": ("exploration", "As C02 with scripted handler outcomes (values, failures, unusable results, files): the frontend call's return value is compared with the script and the scheduler's deadlock detector decides 'never an indefinite wait' exactly (the system has no timers).", "DESIGN.md 4 C03"),
 "C04": ("exploration", "Raw spec peer against the real backend server over seeded request histories; the server's byte stream is compared item by item with a reference protocol model (negotiation state, reply/ack/nothing, values, descriptors), in lock-step and pipelined modes, daemon and keep-serving policies.", "DESIGN.md 4 C04"),
 "C05": ("exploration", "Hostile grammar-aware byte streams with 0..=40 descriptors against the real backend server, plus adversarial well-typed values against a live daemon; panic/overflow detection (overflow checks and debug assertions on) and an independent validity predicate over every handler invocation.", "DESIGN.md 4 C05"),
 "C06": ("exploration", "Every client call of Frontend / Backend proxy / GpuBackend against a raw peer that mutates the specification's reply and closes; Ok is allowed only under an independent is-reply-for predicate and must return the decoded fields; hostile streams against FrontendReqHandler with a framing-walk oracle.", "DESIGN.md 4 C06"),
 "C07": ("exploration", "All 2^11 subsets of the gating bits enumerated on both endpoints, crossed with seeded negotiation histories; reference gate table; wiretap and handler log prove refusal without side effect.", "DESIGN.md 4 C07"),
 "C08": ("fault_enumeration", "Every (request type, 2-split offset) and every (request type, cut offset + close) of the backend server's receive path is enumerated per batch; seeded multi-way segmentation, receiver-side short reads, sender-side partial writes and retry-class errnos beyond; oracle is the reference protocol model plus the handler log.", "DESIGN.md 4 C08"),
 "C09": ("exploration", "/proc/self/fd conservation over descriptor-heavy hostile workloads (0..=40 descriptors of three kinds, wrong counts, later bytes, beyond the receive limit, teardown after any message) on all receivers; the same epilogue runs after every run of every other check.", "DESIGN.md 4 C09"),
 "C10": ("exploration", "2-3 caller tasks on clones of one endpoint under random, PCT and sticky schedules with forced preemptions at the send/lock points; the raw peer holds each request, asserts that no other request is queued before it answers, and tags answers by request identity; deadlock detector for 'all calls complete'.", "DESIGN.md 4 C10"),
 "C11": ("exploration", "A live daemon (real daemon and worker threads as simulator tasks) driven through control-message histories, every history of length 1..3 over the reduced alphabet (incl. SET_VRING_KICK without a descriptor) enumerated, seeded histories beyond (incl. SET_VRING_ERR, RESET_OWNER, repeated SET_PROTOCOL_FEATURES, kicks on given-up descriptors); after each message the harness waits for simulator quiescence, which is an exact barrier for 'no dispatch' in a system without timers, and compares the backend's handle_event log with a reference ring state machine.", "DESIGN.md 4 C11"),
 "C12": ("exploration", "VMM task, guest-kick task, daemon thread and workers interleaved by the seeded scheduler (random / PCT / sticky, forced preemptions at the worker and control-path hold points); safety oracle evaluated inside handle_event against reply-observed times, liveness oracle at final quiescence; the residual dispatch-after-stop window is a recorded known finding discriminated by wake-up time.", "DESIGN.md 4 C12"),
 "C13": ("exploration", "Seeded table histories (replace/add/remove, owner resets, overlapping/adjacent/unordered layouts, failing mmaps by real inputs) against a live daemon; reference table vs the memory handle given to the backend, byte visibility both ways through memfds, translation sampled in the queue after SET_VRING_ADDR probes; reconnects after every rejected message.", "DESIGN.md 4 C13"),
 "C14": ("exploration", "Seeded ring-configuration histories against a live daemon; the queue accessors sampled inside handle_event, GET_VRING_BASE values, feature callbacks, used-ring bytes in the latest table's memfd, call-eventfd counters and the flags of a proxy request on a freshly attached backend-request channel are compared with a reference record.", "DESIGN.md 4 C14"),
 "C15": ("exploration", "Live daemon with BitmapMmapRegion: log acceptance rule, independent page-set oracle over the shared log file with guard pages; 2..=16 writer tasks interleaved at the lock / fetch_or sync points, optionally racing a second SET_LOG_BASE; histories mixing SET_LOG_BASE with table changes, owner resets and feature renegotiation. The single-writer precision part is a pure-input check riding on the simulator (weakest part). The clause \"concurrent writers never lose each other's bits\" is additionally run under a second deterministic scheduler, Miri (seeded preemption at basic-block granularity, -Zmiri-many-seeds), on the real AtomicBitmapMmap with 2..=8 writer threads, because vsim only switches tasks at instrumented sync points.", "DESIGN.md 4 C15, 10.8"),
 "C16": ("exploration", "Shutdown callers, peer behaviours (idle, k requests, stopped or closed at every byte offset of a request, reply pending, malformed request) and the daemon thread interleaved by the seeded scheduler with forced preemptions at the daemon/shutdown hold points; wait() result, peer EOF, restartability, serve() mapping (Ok for clean / partial-header disconnects, Err inside a body) and worker termination; hangs decided by the deadlock detector.", "DESIGN.md 4 C16"),
 "C17": ("exploration", "Mostly a configuration sweep riding on the simulator (all assignments of 1..=4 queues to 1..=3 masks enumerated, random up to 6 queues, 62..=64 queues with masks in the top bits): reference routing function vs (thread id, event id, ring identity by size and next-available index) recorded by the backend while workers run concurrently; custom listener ids across the 64-bit range.", "DESIGN.md 4 C17"),
 "C18": ("exploration", "Seeded histories through the real Backend proxy against the real FrontendReqHandler with scripted handler results and errno classes, REPLY_ACK on/off; handler log, proxy return values and ack bytes on the wiretap are compared with the reference ack model.", "DESIGN.md 4 C18"),
}

NA = {
 "C19": "kernel vhost/vDPA ioctl encoding is a pure function of call arguments (one synchronous ioctl per call, no schedule, fault, crash point or history for a simulator to search); modules are compiled out of the pinned build (vhost-kern feature) and need /dev/vhost-*; deciding it is differential testing against <linux/vhost.h>, a different technique (DESIGN.md section 5)",
 "C20": "is_valid() is a pure predicate over the bytes of one struct: no concurrency, time, I/O or multi-step behaviour to simulate; it is decided by boundary-lattice enumeration or a solver, not by simulation. Its consequences at the receivers are covered by C05/C06 (DESIGN.md section 5)",
}
NOT_YET = "check not built yet in this session (planned, see DESIGN.md section 4)"

ALL = ["C%02d" % i for i in range(1, 21)]

def hook_commits():
    out = subprocess.run(["git", "-C", "/repo", "log", "--format=%H %s"], capture_output=True, text=True).stdout
    return [l.split()[0] for l in out.splitlines() if "verif-hooks:" in l][::-1]

m = {
 "version": 1,
 "setup_cmd": "cd /verif && ./vcheck build",
 "hooks": {
  "guard": "verif-hooks",
  "enable": "cargo feature `verif-hooks` on crates vhost and vhost-user-backend (vhost-user-backend forwards it); the simulator crate /verif/sim depends on /repo/vhost and /repo/vhost-user-backend by path with the feature enabled, so every check rebuilds from /repo's working tree",
  "baseline_off_cmd": BASELINE_CMD,
  "source_commits": hook_commits(),
  "add_only": True,
 },
 "engines": [{
  "name": "vsim",
  "path": "/verif/sim",
  "serves_properties": sorted(CLAIMED.keys()),
  "kind_free_text": "deterministic simulator: token-passing scheduler over real OS threads with sync points at locks, blocking syscalls, thread start/join; simulator-owned sendmsg/recvmsg seam (short I/O, errno injection, wiretap); three decision tapes (workload/schedule/fault) from VERIF_SEED; replay files and delta-debugging minimiser",
 }, {
  "name": "miri-c15",
  "path": "/verif/miri-c15",
  "serves_properties": ["C15"],
  "kind_free_text": "Miri (cargo +nightly miri run) as a seeded preemptive scheduler over the real bitmap code of /repo: harness /verif/miri-c15, driver /verif/tools/c15_miri.py; an execution is (case range, Miri seed) and replays exactly; run by ./vcheck C15 after the vsim batch",
 }],
 "checks": [],
 "not_applicable": [],
 "notes": "All checks: ./vcheck <id> quick|thorough rebuilds /verif/sim against /repo's working tree (feature verif-hooks on) and runs a seeded batch; exit 0 held / 1 violation with replay file / 2 harness error. ./vcheck replay <file> re-executes a replay file. Known findings: /verif/known_findings.json.",
}
for pid in ALL:
    if pid in CLAIMED:
        cat, text, ref = CLAIMED[pid]
        m["checks"].append({
            "property_id": pid,
            "quick_cmd": "./vcheck %s quick" % pid,
            "thorough_cmd": "./vcheck %s thorough" % pid,
            "evidence_file": "/verif/evidence/%s.json" % pid,
            "replay_cmd_template": "./vcheck replay {path}",
            "engine": "vsim",
            "level_claimed": {"category": cat, "text": text, "design_ref": ref},
            "level_note": TRUST,
            "technique": TECH if pid != "C15" else TECH + "; plus seeded preemptive scheduling of the bitmap's atomics under Miri (-Zmiri-many-seeds) for the lost-update clause",
        })
    else:
        m["not_applicable"].append({"property_id": pid, "reason": NA.get(pid, NOT_YET)})
json.dump(m, open("/verif/MANIFEST.json", "w"), indent=1)
print("claimed:", sorted(CLAIMED.keys()))
