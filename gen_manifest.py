#!/usr/bin/env python3
"""Generates /verif/MANIFEST.json from the table below (kept in one place so that the
manifest, the claimed set and the not-applicable list cannot drift apart)."""
import json, subprocess

BASELINE_CMD = "cd /repo && cargo nextest run --workspace --no-fail-fast --tool-config-file pb:/w/lib/nextest.toml --profile pb --test-threads 8 --offline || (cd /repo && cargo test --workspace --no-fail-fast --offline)"

TECH = "deterministic simulation with fault injection (seeded token-passing scheduler over real threads, simulator-controlled socket I/O faults, independent spec-codec peer, reference-model oracles, tape replay + delta-debug minimisation)"
TRUST = "vsim scheduler and hook module; vsim::spec (independent transcription of the vhost-user spec); reference models; Linux socket/eventfd/epoll semantics; sequential consistency at sync points; seeded sampling is evidence, not proof"

# id -> (level category, level text, design ref)
CLAIMED = {
}

NA = {
 "C19": "kernel vhost/vDPA ioctl encoding is a pure function of call arguments (one synchronous ioctl per call, no schedule, fault, crash point or history for a simulator to search); modules are compiled out of the pinned build (vhost-kern feature) and need /dev/vhost-*; deciding it is differential testing against <linux/vhost.h>, a different technique (DESIGN.md section 5)",
 "C20": "is_valid() is a pure predicate over the bytes of one struct: no concurrency, time, I/O or multi-step behaviour to simulate; it is decided by boundary-lattice enumeration or a solver, not by simulation. Its consequences at the receivers are covered by C05/C06 (DESIGN.md section 5)",
}
NOT_YET = "check not built yet in this session (planned, see DESIGN.md section 4)"

ALL = ["C%02d" % i for i in range(1, 21)]

def hook_commits():
    out = subprocess.run(["git", "-C", "/repo", "log", "--format=%H %s"], capture_output=True, text=True).stdout
    return [l.split()[0] for l in out.splitlines() if "verif-hooks:" in l][::-1]

m = {
 "version": 1,
 "setup_cmd": "cd /verif && ./vcheck build",
 "hooks": {
  "guard": "verif-hooks",
  "enable": "cargo feature `verif-hooks` on crates vhost and vhost-user-backend (vhost-user-backend forwards it); the simulator crate /verif/sim depends on /repo/vhost and /repo/vhost-user-backend by path with the feature enabled, so every check rebuilds from /repo's working tree",
  "baseline_off_cmd": BASELINE_CMD,
  "source_commits": hook_commits(),
  "add_only": True,
 },
 "engines": [{
  "name": "vsim",
  "path": "/verif/sim",
  "serves_properties": sorted(CLAIMED.keys()),
  "kind_free_text": "deterministic simulator: token-passing scheduler over real OS threads with sync points at locks, blocking syscalls, thread start/join; simulator-owned sendmsg/recvmsg seam (short I/O, errno injection, wiretap); three decision tapes (workload/schedule/fault) from VERIF_SEED; replay files and delta-debugging minimiser",
 }],
 "checks": [],
 "not_applicable": [],
 "notes": "All checks: ./vcheck <id> quick|thorough rebuilds /verif/sim against /repo's working tree (feature verif-hooks on) and runs a seeded batch; exit 0 held / 1 violation with replay file / 2 harness error. ./vcheck replay <file> re-executes a replay file. Known findings: /verif/known_findings.json.",
}
for pid in ALL:
    if pid in CLAIMED:
        cat, text, ref = CLAIMED[pid]
        m["checks"].append({
            "property_id": pid,
            "quick_cmd": "./vcheck %s quick" % pid,
            "thorough_cmd": "./vcheck %s thorough" % pid,
            "evidence_file": "/verif/evidence/%s.json" % pid,
            "replay_cmd_template": "./vcheck replay {path}",
            "engine": "vsim",
            "level_claimed": {"category": cat, "text": text, "design_ref": ref},
            "level_note": TRUST,
            "technique": TECH,
        })
    else:
        m["not_applicable"].append({"property_id": pid, "reason": NA.get(pid, NOT_YET)})
json.dump(m, open("/verif/MANIFEST.json", "w"), indent=1)
print("claimed:", sorted(CLAIMED.keys()))
